#![no_main]
use libfuzzer_sys::fuzz_target;

fuzz_target!(|data: &[u8]| {
    vcheck::fuzz_entry::decompress(data);
});
