//! known_findings.json: committed list of genuine defects that are recorded rather than repaired
//! ("known") and of repaired ones ("fixed"; these suppress nothing). Never written at run time.

use serde::Deserialize;
use std::path::Path;

#[derive(Clone, Debug, Deserialize)]
pub struct Entry {
    pub status: String, // "known" | "fixed"
    pub property: String,
    /// signature prefix of the violation this entry covers
    pub signature: String,
    #[serde(default)]
    pub what: String,
    #[serde(default)]
    pub commit: String,
    #[serde(default)]
    pub line: String,
}

#[derive(Clone, Debug, Deserialize, Default)]
pub struct Known {
    #[serde(default)]
    pub findings: Vec<Entry>,
}

impl Known {
    pub fn load(path: &Path) -> Known {
        match std::fs::read(path) {
            Ok(b) => match serde_json::from_slice::<Known>(&b) {
                Ok(k) => k,
                Err(e) => {
                    eprintln!("INFRA: known_findings.json does not parse: {e}");
                    std::process::exit(2);
                }
            },
            Err(_) => Known::default(),
        }
    }

    /// The "known" entry (if any) that covers violation signature `sig` of `prop`.
    pub fn covering(&self, prop: &str, sig: &str) -> Option<&Entry> {
        self.findings
            .iter()
            .find(|e| e.status == "known" && e.property == prop && sig.starts_with(&e.signature))
    }

    /// Is a finding class (signature prefix) still open for `prop`?
    pub fn is_known_prefix(&self, prop: &str, prefix: &str) -> bool {
        self.findings.iter().any(|e| {
            e.status == "known"
                && e.property == prop
                && (e.signature.starts_with(prefix) || prefix.starts_with(&e.signature))
        })
    }
}
