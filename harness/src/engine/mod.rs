//! Engine: parallel proptest runner, indexed enumerator, recorder, evidence, replay files,
//! known-findings matching, panic capture.

pub mod known;
pub mod panics;
pub mod record;
pub mod runner;

pub use known::Known;
pub use panics::{catch, PanicInfo};
pub use record::{Recorder, SubStats};
pub use runner::{run_indexed, run_list, run_proptest, sample, PtCfg};

use serde::{Deserialize, Serialize};

#[derive(Clone, Copy, Debug, PartialEq, Eq)]
pub enum Tier {
    Quick,
    Thorough,
}

impl Tier {
    pub fn name(self) -> &'static str {
        match self {
            Tier::Quick => "quick",
            Tier::Thorough => "thorough",
        }
    }
    /// pick by tier
    pub fn pick<T>(self, quick: T, thorough: T) -> T {
        match self {
            Tier::Quick => quick,
            Tier::Thorough => thorough,
        }
    }
}

/// A failed case. `sig` identifies the oracle clause / API entry point / discriminating predicate
/// (root-cause class); `msg` is free text for the human.
#[derive(Clone, Debug, Serialize, Deserialize)]
pub struct Fail {
    pub sig: String,
    pub msg: String,
}

impl Fail {
    pub fn new(sig: impl Into<String>, msg: impl Into<String>) -> Self {
        Fail {
            sig: sig.into(),
            msg: msg.into(),
        }
    }
}

/// What a passing case reports about itself.
#[derive(Clone, Debug, Default)]
pub struct Meta {
    pub nontrivial: bool,
    pub labels: Vec<&'static str>,
}

impl Meta {
    pub fn new(nontrivial: bool) -> Self {
        Meta {
            nontrivial,
            labels: Vec::new(),
        }
    }
    pub fn label(mut self, on: bool, l: &'static str) -> Self {
        if on {
            self.labels.push(l);
        }
        self
    }
}

pub type CaseResult = Result<Meta, Fail>;

#[macro_export]
macro_rules! ensure {
    ($cond:expr, $sig:expr, $($arg:tt)*) => {
        if !($cond) {
            return Err($crate::engine::Fail::new($sig, format!($($arg)*)));
        }
    };
}

#[macro_export]
macro_rules! fail {
    ($sig:expr, $($arg:tt)*) => {
        return Err($crate::engine::Fail::new($sig, format!($($arg)*)))
    };
}

/// Run `f`, turning a panic into a `Fail` whose signature names the panic site.
pub fn guarded<T>(what: &str, f: impl FnOnce() -> T) -> Result<T, Fail> {
    match catch(f) {
        Ok(v) => Ok(v),
        Err(p) => Err(Fail::new(
            format!("panic/{}/{}", what, p.site()),
            format!("panic in {}: {} at {}", what, p.msg, p.loc),
        )),
    }
}

/// Context handed to every property module.
pub struct Ctx {
    pub prop: &'static str,
    pub tier: Tier,
    pub seed: u64,
    pub rec: Recorder,
    pub known: Known,
    pub verif_dir: std::path::PathBuf,
    pub lanes: usize,
}

impl Ctx {
    pub fn lane_seed(&self, sub: &str, lane: usize) -> u64 {
        // splitmix over (seed, sub name, lane)
        let mut h: u64 = self.seed ^ 0x9E37_79B9_7F4A_7C15;
        for b in sub.bytes() {
            h = (h ^ u64::from(b)).wrapping_mul(0x100_0000_01B3);
        }
        h = h.wrapping_add((lane as u64 + 1).wrapping_mul(0xBF58_476D_1CE4_E5B9));
        splitmix(h)
    }
    /// Is the finding class `sig_prefix` recorded as still open ("known") for this property?
    /// Generators use this to exclude the class by construction from the main search.
    pub fn excluded(&self, sig_prefix: &str) -> bool {
        self.known.is_known_prefix(self.prop, sig_prefix)
    }
}

pub fn splitmix(mut z: u64) -> u64 {
    z = z.wrapping_add(0x9E37_79B9_7F4A_7C15);
    z = (z ^ (z >> 30)).wrapping_mul(0xBF58_476D_1CE4_E5B9);
    z = (z ^ (z >> 27)).wrapping_mul(0x94D0_49BB_1331_11EB);
    z ^ (z >> 31)
}

/// Small deterministic PRNG for *expanding recipes* (never for choosing cases).
#[derive(Clone)]
pub struct Sm(pub u64);
impl Sm {
    pub fn next(&mut self) -> u64 {
        self.0 = self.0.wrapping_add(0x9E37_79B9_7F4A_7C15);
        let mut z = self.0;
        z = (z ^ (z >> 30)).wrapping_mul(0xBF58_476D_1CE4_E5B9);
        z = (z ^ (z >> 27)).wrapping_mul(0x94D0_49BB_1331_11EB);
        z ^ (z >> 31)
    }
    pub fn below(&mut self, n: u64) -> u64 {
        if n == 0 {
            0
        } else {
            self.next() % n
        }
    }
    pub fn fill(&mut self, buf: &mut [u8]) {
        for ch in buf.chunks_mut(8) {
            let v = self.next().to_le_bytes();
            ch.copy_from_slice(&v[..ch.len()]);
        }
    }
}

/// 64-bit digest of a serialisable case (SipHash with fixed keys; deterministic across runs).
pub fn digest<T: Serialize>(v: &T) -> u64 {
    use std::hash::Hasher;
    let bytes = serde_json::to_vec(v).unwrap_or_default();
    let mut h = std::collections::hash_map::DefaultHasher::new();
    h.write(&bytes);
    h.finish()
}

pub fn hex(b: &[u8]) -> String {
    let mut s = String::with_capacity(b.len() * 2);
    for x in b {
        s.push_str(&format!("{:02x}", x));
    }
    s
}

pub fn unhex(s: &str) -> Vec<u8> {
    let s = s.as_bytes();
    let mut out = Vec::with_capacity(s.len() / 2);
    let mut i = 0;
    while i + 1 < s.len() {
        let h = (s[i] as char).to_digit(16).unwrap_or(0) as u8;
        let l = (s[i + 1] as char).to_digit(16).unwrap_or(0) as u8;
        out.push(h << 4 | l);
        i += 2;
    }
    out
}
