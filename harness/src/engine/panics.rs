//! Panic capture: a process-wide hook stores message + location per thread; `catch` wraps
//! `catch_unwind` and returns them.

use std::cell::RefCell;
use std::panic::{catch_unwind, AssertUnwindSafe};
use std::sync::Once;

#[derive(Clone, Debug)]
pub struct PanicInfo {
    pub msg: String,
    pub loc: String,
}

impl PanicInfo {
    /// Stable signature component: file (path tail) + line for library code; for panics raised
    /// inside std/deps the message is part of the site because the location is generic.
    pub fn site(&self) -> String {
        let loc = self.loc.as_str();
        let tail = if let Some(i) = loc.find("/repo/") {
            &loc[i + 6..]
        } else if let Some(i) = loc.find("src/") {
            &loc[i..]
        } else {
            loc
        };
        // strip column
        let mut parts: Vec<&str> = tail.split(':').collect();
        if parts.len() >= 3 {
            parts.pop();
        }
        let site = parts.join(":");
        if loc.contains("/repo/") || loc.starts_with("src/") {
            site
        } else {
            let m: String = self.msg.chars().take(48).collect();
            format!("{}[{}]", site, m)
        }
    }
}

thread_local! {
    static LAST: RefCell<Option<PanicInfo>> = const { RefCell::new(None) };
    static QUIET: RefCell<u32> = const { RefCell::new(0) };
}

static INIT: Once = Once::new();

pub fn install_hook() {
    INIT.call_once(|| {
        let default = std::panic::take_hook();
        std::panic::set_hook(Box::new(move |info| {
            let msg = if let Some(s) = info.payload().downcast_ref::<&str>() {
                (*s).to_string()
            } else if let Some(s) = info.payload().downcast_ref::<String>() {
                s.clone()
            } else {
                "<non-string panic payload>".to_string()
            };
            let loc = info
                .location()
                .map(|l| format!("{}:{}:{}", l.file(), l.line(), l.column()))
                .unwrap_or_else(|| "<unknown>".into());
            let quiet = QUIET.with(|q| *q.borrow() > 0);
            LAST.with(|l| *l.borrow_mut() = Some(PanicInfo { msg, loc }));
            if !quiet {
                default(info);
            }
        }));
    });
}

/// Run `f`; a panic becomes `Err(PanicInfo)`. Nothing is printed for caught panics.
pub fn catch<T>(f: impl FnOnce() -> T) -> Result<T, PanicInfo> {
    install_hook();
    QUIET.with(|q| *q.borrow_mut() += 1);
    let r = catch_unwind(AssertUnwindSafe(f));
    QUIET.with(|q| *q.borrow_mut() -= 1);
    match r {
        Ok(v) => Ok(v),
        Err(_) => Err(LAST.with(|l| l.borrow_mut().take()).unwrap_or(PanicInfo {
            msg: "<panic>".into(),
            loc: "<unknown>".into(),
        })),
    }
}
