//! Recorder: counts what a run covered, collects violations, writes evidence and replay files.

use super::{Fail, Known, Tier};
use serde_json::{json, Value};
use std::collections::{BTreeMap, HashMap, HashSet};
use std::path::{Path, PathBuf};
use std::sync::Mutex;
use std::time::Instant;

#[derive(Clone, Debug, Default)]
pub struct SubStats {
    pub evaluations: u64,
    pub nontrivial: u64,
    pub exhaustive: bool,
    pub wall_s: f64,
    pub note: String,
}

/// Per-thread accumulator, merged into the recorder once per lane / chunk.
#[derive(Default)]
pub struct LaneAcc {
    pub evals: u64,
    pub nontrivial_undigested: u64,
    pub digests: HashSet<u64>,
    pub classes: HashMap<&'static str, u64>,
    pub samples: Vec<Value>,
}

#[derive(Clone, Debug)]
pub struct Violation {
    pub sub: String,
    pub sig: String,
    pub msg: String,
    pub replay: PathBuf,
}

#[derive(Default)]
struct Inner {
    subs: Vec<(String, SubStats)>,
    digests: HashSet<u64>,
    nontrivial_undigested: u64,
    evaluations: u64,
    classes: BTreeMap<String, u64>,
    samples: Vec<Value>,
    violations: Vec<Violation>,
    known_hits: BTreeMap<String, (u64, String)>,
    excluded: BTreeMap<String, u64>,
    observations: BTreeMap<String, Value>,
    floors: Vec<(String, u64)>,
    assumptions: Vec<String>,
    rule: String,
    infra: Vec<String>,
}

pub struct Recorder {
    inner: Mutex<Inner>,
    start: Instant,
    /// known findings of the property under check (violations they cover are not announced as VIOLATION)
    known: Mutex<Option<(String, Known)>>,
}

impl Default for Recorder {
    fn default() -> Self {
        Recorder {
            inner: Mutex::new(Inner::default()),
            start: Instant::now(),
            known: Mutex::new(None),
        }
    }
}

const MAX_SAMPLES: usize = 8;

impl Recorder {
    pub fn set_known(&self, prop: &str, known: &Known) {
        *self.known.lock().unwrap() = Some((prop.to_string(), known.clone()));
    }
    pub fn set_rule(&self, rule: &str) {
        self.inner.lock().unwrap().rule = rule.to_string();
    }
    pub fn assume(&self, a: &str) {
        self.inner.lock().unwrap().assumptions.push(a.to_string());
    }
    pub fn floor(&self, class: &str, min: u64) {
        self.inner.lock().unwrap().floors.push((class.to_string(), min));
    }
    pub fn observe(&self, key: &str, v: Value) {
        self.inner.lock().unwrap().observations.insert(key.to_string(), v);
    }
    pub fn exclude(&self, why: &str, n: u64) {
        *self.inner.lock().unwrap().excluded.entry(why.to_string()).or_insert(0) += n;
    }
    pub fn infra(&self, what: &str) {
        self.inner.lock().unwrap().infra.push(what.to_string());
    }
    pub fn class_add(&self, class: &str, n: u64) {
        *self.inner.lock().unwrap().classes.entry(class.to_string()).or_insert(0) += n;
    }

    pub fn merge(&self, sub: &str, acc: LaneAcc) {
        let mut g = self.inner.lock().unwrap();
        g.evaluations += acc.evals;
        g.nontrivial_undigested += acc.nontrivial_undigested;
        let before = g.digests.len() as u64 + 0;
        for d in &acc.digests {
            g.digests.insert(*d);
        }
        let added = g.digests.len() as u64 - before;
        for (k, v) in acc.classes {
            *g.classes.entry(k.to_string()).or_insert(0) += v;
        }
        for s in acc.samples {
            if g.samples.len() < MAX_SAMPLES {
                g.samples.push(s);
            }
        }
        let st = sub_mut(&mut g.subs, sub);
        st.evaluations += acc.evals;
        st.nontrivial += added + acc.nontrivial_undigested;
    }

    pub fn sub_done(&self, sub: &str, exhaustive: bool, wall_s: f64, note: &str) {
        let mut g = self.inner.lock().unwrap();
        let st = sub_mut(&mut g.subs, sub);
        st.exhaustive = exhaustive;
        st.wall_s += wall_s;
        if !note.is_empty() {
            st.note = note.to_string();
        }
    }

    /// Record a violation (deduplicated by signature) and write its replay file.
    pub fn violation(&self, verif_dir: &Path, prop: &str, sub: &str, fail: &Fail, case: Value) {
        if fail.sig.contains("/INFRA/") {
            // timeouts, worker problems: inconclusive, never a violation; keep the case for inspection
            let dir = verif_dir.join("replays").join(prop).join("found");
            let _ = std::fs::create_dir_all(&dir);
            let path = dir.join(format!("inconclusive-{:016x}.json", fxhash(fail.msg.as_bytes())));
            let _ = std::fs::write(&path, serde_json::to_vec(&json!({"property": prop, "sub": sub, "signature": fail.sig, "message": fail.msg, "case": case})).unwrap_or_default());
            self.infra(&format!("{sub}: {} [{}] case saved to {}", fail.msg, fail.sig, path.display()));
            return;
        }
        let mut g = self.inner.lock().unwrap();
        if g.violations.iter().any(|v| v.sig == fail.sig) {
            return;
        }
        let dir = verif_dir.join("replays").join(prop).join("found");
        let _ = std::fs::create_dir_all(&dir);
        let name = format!("{:016x}.json", fxhash(fail.sig.as_bytes()));
        let path = dir.join(name);
        let doc = json!({
            "property": prop,
            "sub": sub,
            "signature": fail.sig,
            "message": fail.msg,
            "case": case,
        });
        let _ = std::fs::write(&path, serde_json::to_vec_pretty(&doc).unwrap_or_default());
        // announce at once (the run may still die later, e.g. killed for memory under a broken library)
        let covered = self.known.lock().unwrap().as_ref().map_or(false, |(p, k)| k.covering(p, &fail.sig).is_some());
        if !covered {
            use std::io::Write;
            let mut o = std::io::stdout().lock();
            let _ = writeln!(o, "VIOLATION property={prop} replay={}", path.display());
            let _ = writeln!(o, "  sub-check: {sub}  signature: {}", fail.sig);
            let _ = writeln!(o, "  {}", fail.msg.replace('\n', "\n  "));
            let _ = o.flush();
        }
        g.violations.push(Violation {
            sub: sub.to_string(),
            sig: fail.sig.clone(),
            msg: fail.msg.clone(),
            replay: path,
        });
    }

    pub fn has_violation(&self) -> bool {
        !self.inner.lock().unwrap().violations.is_empty()
    }

    /// Write evidence, print VIOLATION / KNOWN-FINDING lines, return the process exit code.
    pub fn finish(&self, verif_dir: &Path, prop: &str, level: &str, tier: Tier, seed: u64, known: &Known) -> i32 {
        let mut g = self.inner.lock().unwrap();
        let wall = self.start.elapsed().as_secs_f64();

        // split violations into known / new
        let mut new_v: Vec<Violation> = Vec::new();
        let vs: Vec<Violation> = g.violations.clone();
        for v in vs {
            if let Some(e) = known.covering(prop, &v.sig) {
                let ent = g.known_hits.entry(e.signature.clone()).or_insert((0, e.what.clone()));
                ent.0 += 1;
            } else {
                new_v.push(v);
            }
        }

        let distinct_nontrivial = g.digests.len() as u64 + g.nontrivial_undigested;
        let mut below: Vec<String> = Vec::new();
        for (c, min) in &g.floors {
            let have = g.classes.get(c).copied().unwrap_or(0);
            if have < *min {
                below.push(format!("{c}: {have} < {min}"));
            }
        }
        let all_exhaustive = !g.subs.is_empty() && g.subs.iter().all(|(_, s)| s.exhaustive);
        let subs: Vec<Value> = g
            .subs
            .iter()
            .map(|(n, s)| {
                json!({"name": n, "evaluations": s.evaluations, "distinct_nontrivial": s.nontrivial,
                       "exhaustive": s.exhaustive, "wall_s": (s.wall_s*1000.0).round()/1000.0, "note": s.note})
            })
            .collect();
        let mut samples = g.samples.clone();
        if samples.is_empty() {
            samples.push(json!("(no sample recorded)"));
        }
        let ev = json!({
            "property_id": prop,
            "tier": tier.name(),
            "seed": seed,
            "level": level,
            "coverage": {
                "evaluations": g.evaluations,
                "distinct_nontrivial": distinct_nontrivial,
                "rule": g.rule,
                "samples": samples,
                "exhaustive": all_exhaustive,
                "sub_checks": subs,
                "classes": g.classes,
                "classes_below_floor": below,
                "excluded_by_construction": g.excluded,
                "observations": g.observations,
                "known_findings_hit": g.known_hits.iter().map(|(k,(n,w))| json!({"signature":k,"count":n,"what":w})).collect::<Vec<_>>(),
                "violations_detail": new_v.iter().map(|v| json!({"sub": v.sub, "signature": v.sig, "message": v.msg, "replay": v.replay})).collect::<Vec<_>>(),
            },
            "assumptions": g.assumptions,
            "wall_s": (wall*1000.0).round()/1000.0,
            "violations": new_v.len(),
        });
        let edir = verif_dir.join("evidence");
        let _ = std::fs::create_dir_all(&edir);
        let epath = edir.join(format!("{prop}.json"));
        if let Err(e) = std::fs::write(&epath, serde_json::to_vec_pretty(&ev).unwrap_or_default()) {
            eprintln!("INFRA: cannot write evidence {}: {e}", epath.display());
            return 2;
        }

        for (sig, (n, what)) in &g.known_hits {
            println!("KNOWN-FINDING: property={prop} {what} [signature {sig}; {n} distinct failing case(s) this run]");
        }
        // (VIOLATION lines were printed when the violations were recorded)
        println!(
            "{prop} {}: evaluations={} distinct_nontrivial={} violations={} known_hits={} wall={:.1}s",
            tier.name(),
            g.evaluations,
            distinct_nontrivial,
            new_v.len(),
            g.known_hits.len(),
            wall
        );
        if !new_v.is_empty() {
            return 1;
        }
        if !g.infra.is_empty() {
            for i in &g.infra {
                eprintln!("INCONCLUSIVE: {i}");
            }
            return 2;
        }
        if !below.is_empty() {
            eprintln!("INCONCLUSIVE: generator classes below their floor: {below:?}");
            return 2;
        }
        let _ = &mut g;
        0
    }
}

fn sub_mut<'a>(subs: &'a mut Vec<(String, SubStats)>, name: &str) -> &'a mut SubStats {
    if let Some(i) = subs.iter().position(|(n, _)| n == name) {
        return &mut subs[i].1;
    }
    subs.push((name.to_string(), SubStats::default()));
    let l = subs.len() - 1;
    &mut subs[l].1
}

pub fn fxhash(b: &[u8]) -> u64 {
    let mut h: u64 = 0xcbf2_9ce4_8422_2325;
    for x in b {
        h = (h ^ u64::from(*x)).wrapping_mul(0x100_0000_01B3);
    }
    h
}
