//! Parallel drivers: seeded proptest lanes (with shrinking), indexed enumerations, fixed lists.

use super::record::LaneAcc;
use super::{catch, digest, CaseResult, Ctx, Fail, Meta};
use proptest::strategy::Strategy;
use proptest::test_runner::{Config, RngAlgorithm, RngSeed, TestCaseError, TestError, TestRunner};
use serde::Serialize;
use serde_json::Value;
use std::cell::RefCell;
use std::collections::BTreeMap;
use std::fmt::Debug;
use std::sync::atomic::{AtomicBool, AtomicU64, Ordering};
use std::sync::Mutex;
use std::time::Instant;

/// lane threads get a large (virtual) stack: reference walkers recurse as deep as the visit budget allows
const LANE_STACK: usize = 256 << 20;

fn spawn_lane<'scope, 'env, F>(sc: &'scope std::thread::Scope<'scope, 'env>, f: F)
where
    F: FnOnce() + Send + 'scope,
{
    std::thread::Builder::new().stack_size(LANE_STACK).spawn_scoped(sc, f).expect("spawn lane thread");
}

#[derive(Clone, Copy, Debug)]
pub struct PtCfg {
    pub lanes: usize,
    pub cases: u32,
    pub max_shrink: u32,
}

impl PtCfg {
    pub fn new(lanes: usize, cases: u32) -> Self {
        PtCfg {
            lanes,
            cases,
            max_shrink: 1500,
        }
    }
}

fn record(acc: &mut LaneAcc, meta: &Meta, dig: impl FnOnce() -> u64, sample: impl FnOnce() -> Value, want_sample: bool) {
    acc.evals += 1;
    if meta.nontrivial {
        acc.digests.insert(dig());
    }
    for l in &meta.labels {
        *acc.classes.entry(l).or_insert(0) += 1;
    }
    if want_sample {
        acc.samples.push(sample());
    }
}

/// Truncate big values so that evidence samples stay readable.
pub fn clip(v: &Value, depth: u32) -> Value {
    match v {
        Value::String(s) if s.len() > 160 => Value::String(format!("{}…(+{} chars)", &s.chars().take(120).collect::<String>(), s.len() - 120)),
        Value::Array(a) => {
            let lim = if depth == 0 { 24 } else { 10 };
            let mut out: Vec<Value> = a.iter().take(lim).map(|x| clip(x, depth + 1)).collect();
            if a.len() > lim {
                out.push(Value::String(format!("…(+{} more)", a.len() - lim)));
            }
            Value::Array(out)
        }
        Value::Object(m) => Value::Object(m.iter().map(|(k, x)| (k.clone(), clip(x, depth + 1))).collect()),
        _ => v.clone(),
    }
}

/// Run `cfg.lanes` independent proptest runners (derived seeds) in parallel over the strategy built
/// by `mk`; `f` is the executable property. The first failure of a lane is shrunk (only shrinks that
/// keep the *same* failure signature are accepted), re-run, and recorded with a replay file.
pub fn run_proptest<C, S, MK, F>(ctx: &Ctx, sub: &str, cfg: PtCfg, mk: MK, f: F)
where
    C: Debug + Clone + Serialize,
    S: Strategy<Value = C>,
    MK: Fn() -> S + Sync,
    F: Fn(&C) -> CaseResult + Sync,
{
    let t0 = Instant::now();
    std::thread::scope(|sc| {
        for lane in 0..cfg.lanes {
            let f = &f;
            let mk = &mk;
            spawn_lane(sc, move || {
                let seed = ctx.lane_seed(sub, lane);
                let mut seed_bytes = [0u8; 32];
                for (i, ch) in seed_bytes.chunks_mut(8).enumerate() {
                    ch.copy_from_slice(&super::splitmix(seed.wrapping_add(i as u64)).to_le_bytes());
                }
                let _ = seed_bytes;
                let config = Config {
                    cases: cfg.cases,
                    failure_persistence: None,
                    rng_seed: RngSeed::Fixed(seed),
                    rng_algorithm: RngAlgorithm::ChaCha,
                    max_shrink_iters: cfg.max_shrink,
                    max_global_rejects: 65536,
                    max_local_rejects: 65536,
                    source_file: None,
                    verbose: 0,
                    ..Config::default()
                };
                let mut runner = TestRunner::new(config);
                let acc = RefCell::new(LaneAcc::default());
                let failed: RefCell<Option<String>> = RefCell::new(None);
                let strat = mk();
                let res = runner.run(&strat, |c: C| {
                    let r = match catch(|| f(&c)) {
                        Ok(r) => r,
                        Err(p) => Err(Fail::new(
                            format!("panic/uncaught/{}", p.site()),
                            format!("uncaught panic: {} at {}", p.msg, p.loc),
                        )),
                    };
                    // infrastructure outcomes (timeouts, worker trouble) are recorded at once and never shrunk
                    let r = match r {
                        Err(fail) if fail.sig.contains("/INFRA/") => {
                            ctx.rec.violation(&ctx.verif_dir, ctx.prop, sub, &fail, serde_json::to_value(&c).unwrap_or(Value::Null));
                            Ok(Meta::new(false))
                        }
                        other => other,
                    };
                    let mut fl = failed.borrow_mut();
                    match (r, fl.as_ref()) {
                        (Ok(meta), None) => {
                            let mut a = acc.borrow_mut();
                            let want = a.samples.len() < if lane == 0 { 2 } else { 1 } && lane < 6;
                            record(
                                &mut a,
                                &meta,
                                || digest(&c),
                                || clip(&serde_json::to_value(&c).unwrap_or(Value::Null), 0),
                                want,
                            );
                            Ok(())
                        }
                        (Ok(_), Some(_)) => Ok(()),
                        (Err(fail), None) => {
                            *fl = Some(fail.sig.clone());
                            Err(TestCaseError::fail(fail.sig))
                        }
                        (Err(fail), Some(s)) => {
                            if fail.sig == *s {
                                Err(TestCaseError::fail(fail.sig))
                            } else {
                                Ok(())
                            }
                        }
                    }
                });
                ctx.rec.merge(sub, acc.into_inner());
                match res {
                    Ok(()) => {}
                    Err(TestError::Fail(_, minimal)) => {
                        let again = match catch(|| f(&minimal)) {
                            Ok(r) => r,
                            Err(p) => Err(Fail::new(
                                format!("panic/uncaught/{}", p.site()),
                                format!("uncaught panic: {} at {}", p.msg, p.loc),
                            )),
                        };
                        match again {
                            Err(fail) => ctx.rec.violation(
                                &ctx.verif_dir,
                                ctx.prop,
                                sub,
                                &fail,
                                serde_json::to_value(&minimal).unwrap_or(Value::Null),
                            ),
                            Ok(_) => ctx.rec.infra(&format!(
                                "{sub}: shrunk failing case passed on re-execution (non-deterministic check?)"
                            )),
                        }
                    }
                    Err(TestError::Abort(reason)) => {
                        ctx.rec.infra(&format!("{sub}: proptest aborted: {reason}"));
                    }
                }
            });
        }
    });
    ctx.rec.sub_done(sub, false, t0.elapsed().as_secs_f64(), "");
}

/// Enumerate indices `0..n` in parallel; `f(i)` is the property on case i, `show(i)` writes the
/// case out (samples, replay files). Indices are distinct cases by construction, so non-trivial
/// cases are counted, not digested. The lowest failing index per signature is reported.
pub fn run_indexed<F, SH>(ctx: &Ctx, sub: &str, n: u64, exhaustive: bool, chunk: u64, f: F, show: SH)
where
    F: Fn(u64) -> CaseResult + Sync,
    SH: Fn(u64) -> Value + Sync,
{
    let t0 = Instant::now();
    let next = AtomicU64::new(0);
    let stop = AtomicBool::new(false);
    let fails: Mutex<BTreeMap<String, (u64, Fail)>> = Mutex::new(BTreeMap::new());
    let chunk = chunk.max(1);
    std::thread::scope(|sc| {
        for lane in 0..ctx.lanes {
            let f = &f;
            let show = &show;
            let next = &next;
            let stop = &stop;
            let fails = &fails;
            spawn_lane(sc, move || {
                let mut acc = LaneAcc::default();
                let mut local: BTreeMap<String, (u64, Fail)> = BTreeMap::new();
                loop {
                    if stop.load(Ordering::Relaxed) {
                        break;
                    }
                    let lo = next.fetch_add(chunk, Ordering::Relaxed);
                    if lo >= n {
                        break;
                    }
                    let hi = (lo + chunk).min(n);
                    for i in lo..hi {
                        let r = match catch(|| f(i)) {
                            Ok(r) => r,
                            Err(p) => Err(Fail::new(
                                format!("panic/uncaught/{}", p.site()),
                                format!("uncaught panic: {} at {}", p.msg, p.loc),
                            )),
                        };
                        match r {
                            Ok(meta) => {
                                acc.evals += 1;
                                if meta.nontrivial {
                                    acc.nontrivial_undigested += 1;
                                }
                                for l in &meta.labels {
                                    *acc.classes.entry(l).or_insert(0) += 1;
                                }
                                // a few samples spread over the index range (not just the first indices)
                                let spread = (i.wrapping_mul(0x9E37_79B9_7F4A_7C15) >> 33) % (n / 6 + 1) == 0;
                                if acc.samples.len() < 2 && meta.nontrivial && (spread || (lane == 0 && acc.samples.is_empty())) {
                                    acc.samples.push(clip(&show(i), 0));
                                }
                            }
                            Err(fail) => {
                                acc.evals += 1;
                                let e = local.entry(fail.sig.clone()).or_insert((i, fail.clone()));
                                if i < e.0 {
                                    *e = (i, fail);
                                }
                                if local.len() > 32 {
                                    stop.store(true, Ordering::Relaxed);
                                }
                            }
                        }
                    }
                }
                ctx.rec.merge(sub, acc);
                let mut g = fails.lock().unwrap();
                for (k, v) in local {
                    let e = g.entry(k).or_insert_with(|| v.clone());
                    if v.0 < e.0 {
                        *e = v;
                    }
                }
            });
        }
    });
    let g = fails.into_inner().unwrap();
    for (_, (i, fail)) in g {
        ctx.rec.violation(&ctx.verif_dir, ctx.prop, sub, &fail, show(i));
    }
    let complete = !stop.load(Ordering::Relaxed);
    ctx.rec.sub_done(sub, exhaustive && complete, t0.elapsed().as_secs_f64(), "");
}

/// Run a fixed list of cases (regression replays, crafted corpora) in parallel.
pub fn run_list<C, F>(ctx: &Ctx, sub: &str, cases: &[C], f: F)
where
    C: Serialize + Sync,
    F: Fn(&C) -> CaseResult + Sync,
{
    let t0 = Instant::now();
    let next = AtomicU64::new(0);
    let n = cases.len() as u64;
    std::thread::scope(|sc| {
        for lane in 0..ctx.lanes.min(cases.len().max(1)) {
            let f = &f;
            let next = &next;
            spawn_lane(sc, move || {
                let mut acc = LaneAcc::default();
                loop {
                    let i = next.fetch_add(1, Ordering::Relaxed);
                    if i >= n {
                        break;
                    }
                    let c = &cases[i as usize];
                    let r = match catch(|| f(c)) {
                        Ok(r) => r,
                        Err(p) => Err(Fail::new(
                            format!("panic/uncaught/{}", p.site()),
                            format!("uncaught panic: {} at {}", p.msg, p.loc),
                        )),
                    };
                    match r {
                        Ok(meta) => {
                            let want = acc.samples.is_empty() && lane < 2;
                            record(
                                &mut acc,
                                &meta,
                                || digest(c),
                                || clip(&serde_json::to_value(c).unwrap_or(Value::Null), 0),
                                want,
                            );
                        }
                        Err(fail) => {
                            acc.evals += 1;
                            ctx.rec.violation(
                                &ctx.verif_dir,
                                ctx.prop,
                                sub,
                                &fail,
                                serde_json::to_value(c).unwrap_or(Value::Null),
                            );
                        }
                    }
                }
                ctx.rec.merge(sub, acc);
            });
        }
    });
    ctx.rec.sub_done(sub, true, t0.elapsed().as_secs_f64(), "fixed list");
}

/// Draw `n` values from a strategy with a fixed seed (for fault / crash-point enumerations, where the
/// inputs are sampled and the fault index is enumerated exhaustively).
pub fn sample<S: Strategy>(seed: u64, n: usize, strat: &S) -> Vec<S::Value> {
    use proptest::strategy::ValueTree;
    let config = Config { failure_persistence: None, rng_seed: RngSeed::Fixed(seed), rng_algorithm: RngAlgorithm::ChaCha, ..Config::default() };
    let mut runner = TestRunner::new(config);
    let mut out = Vec::with_capacity(n);
    let mut tries = 0;
    while out.len() < n && tries < n * 20 {
        tries += 1;
        if let Ok(t) = strat.new_tree(&mut runner) {
            out.push(t.current());
        }
    }
    out
}
