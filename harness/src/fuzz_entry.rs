//! Entry points for the coverage-guided (libFuzzer) targets under /verif/fuzz: the same API battery and
//! budget rule as the sandboxed search, executed in-process. A panic caught by the battery is turned into
//! an abort so that libFuzzer saves the input; every saved input is later re-judged through the sandboxed
//! worker before it is believed.

use crate::props::c08;
use crate::sandbox::battery;
use crate::sandbox::Job;
use crate::spec::reader::{self, Limits};
use crate::spec::writer::{self, ByteMut, MutVal, Mutations};

/// small in-target budget: keeps executions fast; bigger declared work is simply skipped
fn fuzz_limits() -> Limits {
    Limits { max_tiles: 1 << 14, max_visits: 300, max_dir_bytes: 1 << 20, max_depth: 64 }
}

fn run(job: Job) {
    if job.mode == 0 {
        let w = reader::declared_work(&job.bytes, &fuzz_limits());
        if w.over {
            return;
        }
    }
    if c08::over_budget(&job) {
        return;
    }
    if let Err((api, p)) = battery::run(&job) {
        eprintln!("PANIC in {api}: {} at {}", p.msg, p.loc);
        std::process::abort();
    }
}

pub fn archive(data: &[u8]) {
    run(Job { mode: 0, mask: battery::MASK_ARCHIVE, bytes: data.to_vec() });
}

/// first byte selects the declared compression (0..=4), the rest is the directory
pub fn directory(data: &[u8]) {
    let Some((c, rest)) = data.split_first() else { return };
    let mode = 1 + c % 5;
    run(Job { mode, mask: battery::default_mask(mode), bytes: rest.to_vec() });
}

pub fn decompress(data: &[u8]) {
    run(Job { mode: 7, mask: battery::MASK_DECOMPRESS, bytes: data.to_vec() });
}

const BOUNDARY: [u64; 14] = [0, 1, 127, 128, (1 << 32) - 1, 1 << 32, 1 << 62, 1 << 63, u64::MAX, u64::MAX - 1, (1 << 21) + 1, 1 << 35, 16_384, 65_536];

struct Un<'a>(&'a [u8], usize);
impl Un<'_> {
    fn u8(&mut self) -> u8 {
        let v = self.0.get(self.1).copied().unwrap_or(0);
        self.1 += 1;
        v
    }
    fn u16(&mut self) -> u16 {
        u16::from(self.u8()) | u16::from(self.u8()) << 8
    }
    fn u64(&mut self) -> u64 {
        let mut v = 0u64;
        for i in 0..8 {
            v |= u64::from(self.u8()) << (8 * i);
        }
        v
    }
    fn val(&mut self) -> MutVal {
        match self.u8() % 8 {
            0..=4 => MutVal::Abs(BOUNDARY[usize::from(self.u8()) % BOUNDARY.len()]),
            5 => MutVal::Rel((self.u8() % 5) as i8 - 2),
            6 => MutVal::Remaining((self.u8() % 5) as i8 - 2),
            _ => MutVal::Abs(self.u64()),
        }
    }
}

/// structure-aware target: the bytes choose a small valid base archive and a list of mutations
/// (varint fields of directories, header fields, byte-level damage) applied before re-compression.
pub fn structured(data: &[u8]) {
    run(structured_job(data));
}

/// the Job a fuzz target builds from its input (used to re-judge saved artifacts through the sandbox)
pub fn job_for(target: &str, data: &[u8]) -> Option<Job> {
    match target {
        "c08_archive" => Some(Job { mode: 0, mask: battery::MASK_ARCHIVE, bytes: data.to_vec() }),
        "c08_directory" => {
            let (c, rest) = data.split_first()?;
            let mode = 1 + c % 5;
            Some(Job { mode, mask: battery::default_mask(mode), bytes: rest.to_vec() })
        }
        "c08_decompress" => Some(Job { mode: 7, mask: battery::MASK_DECOMPRESS, bytes: data.to_vec() }),
        "c08_struct" => Some(structured_job(data)),
        _ => None,
    }
}

pub fn structured_job(data: &[u8]) -> Job {
    let mut u = Un(data, 0);
    let codec = 1 + u.u8() % 4;
    let depth = 1 + u.u8() % 3;
    let mut l = crate::props::c13::small_layout(codec, depth);
    l.fan1 = 1 + u16::from(u.u8() % 4);
    l.elide = u.u8() % 2 == 0;
    l.order = u.u8() % 24;
    l.data_mode = u.u8() % 4;
    let mut m = Mutations::default();
    for _ in 0..u.u8() % 5 {
        m.dir.push((u16::from(u.u8() % 6), u.u16(), u.val()));
    }
    for _ in 0..u.u8() % 4 {
        m.header.push((u.u8() % 11, u.val()));
    }
    for _ in 0..u.u8() % 3 {
        m.bytes.push(match u.u8() % 4 {
            0 => ByteMut::Truncate(u.u16()),
            1 => ByteMut::Splice(u.u16(), u.u16(), 1 + u16::from(u.u8() % 40)),
            2 => ByteMut::Set(u.u16(), u.u8()),
            _ => ByteMut::SwapSections(u.u8() % 4, u.u8() % 4),
        });
    }
    let (b, _) = writer::build_with(&l, &m);
    Job { mode: 0, mask: battery::MASK_ARCHIVE, bytes: b.bytes }
}
