//! vcheck library: engine, independent spec-level code, models, stream wrappers, sandbox, properties.
//! (the binary `vcheck` and the libFuzzer targets under /verif/fuzz use it)

#[macro_use]
pub mod engine;
pub mod fuzz_entry;
pub mod libx;
pub mod model;
pub mod props;
pub mod sandbox;
pub mod sio;
pub mod spec;
