//! Adapters around the library's public API: one handle type over the documented constructors
//! (`new`, `new_async`, `from_bytes`, `from_async_reader`), sync/async dispatch, byte writers.

use futures::executor::block_on;
use pmtiles2::{Compression, PMTiles, TileType};
use serde_json::{Map, Value};
use std::io;

pub type SyncNew = PMTiles<std::io::Cursor<&'static [u8]>>;
pub type SyncBytes = PMTiles<std::io::Cursor<Vec<u8>>>;
pub type AsyncNew = PMTiles<futures::io::Cursor<&'static [u8]>>;
pub type AsyncBytes = PMTiles<futures::io::Cursor<Vec<u8>>>;

pub enum Arch {
    New(SyncNew),
    Bytes(SyncBytes),
    NewA(AsyncNew),
    BytesA(AsyncBytes),
}

#[derive(Clone, Debug, PartialEq)]
pub struct Fields {
    pub tile_type: u8,
    pub tile_comp: u8,
    pub internal: u8,
    pub min_zoom: u8,
    pub max_zoom: u8,
    pub center_zoom: u8,
    pub coords: [f64; 6],
    pub meta: Map<String, Value>,
}

macro_rules! each {
    ($s:expr, $pm:ident => $e:expr) => {
        match $s {
            Arch::New($pm) => $e,
            Arch::Bytes($pm) => $e,
            Arch::NewA($pm) => $e,
            Arch::BytesA($pm) => $e,
        }
    };
}

pub fn fields_of<R>(pm: &PMTiles<R>) -> Fields {
    Fields {
        tile_type: crate::model::settings::tile_type_code(pm.tile_type),
        tile_comp: crate::spec::codec::from_lib(pm.tile_compression),
        internal: crate::spec::codec::from_lib(pm.internal_compression),
        min_zoom: pm.min_zoom,
        max_zoom: pm.max_zoom,
        center_zoom: pm.center_zoom,
        coords: [pm.min_longitude, pm.min_latitude, pm.max_longitude, pm.max_latitude, pm.center_longitude, pm.center_latitude],
        meta: pm.meta_data.clone(),
    }
}

pub fn set_fields<R>(pm: &mut PMTiles<R>, f: &Fields) {
    pm.tile_type = crate::model::settings::tile_type_lib(f.tile_type);
    pm.tile_compression = crate::spec::codec::to_lib(f.tile_comp);
    pm.internal_compression = crate::spec::codec::to_lib(f.internal);
    pm.min_zoom = f.min_zoom;
    pm.max_zoom = f.max_zoom;
    pm.center_zoom = f.center_zoom;
    pm.min_longitude = f.coords[0];
    pm.min_latitude = f.coords[1];
    pm.max_longitude = f.coords[2];
    pm.max_latitude = f.coords[3];
    pm.center_longitude = f.coords[4];
    pm.center_latitude = f.coords[5];
    pm.meta_data = f.meta.clone();
}

impl Arch {
    pub fn new_sync() -> Arch {
        Arch::New(PMTiles::new(TileType::Unknown, Compression::Unknown))
    }
    pub fn new_async() -> Arch {
        Arch::NewA(PMTiles::new_async(TileType::Unknown, Compression::Unknown))
    }
    pub fn open_sync(bytes: Vec<u8>) -> io::Result<Arch> {
        Ok(Arch::Bytes(PMTiles::from_bytes(bytes)?))
    }
    pub fn open_async(bytes: Vec<u8>) -> io::Result<Arch> {
        Ok(Arch::BytesA(block_on(PMTiles::from_async_reader(futures::io::Cursor::new(bytes)))?))
    }
    pub fn is_async(&self) -> bool {
        matches!(self, Arch::NewA(_) | Arch::BytesA(_))
    }
    pub fn ids(&self) -> Vec<u64> {
        let mut v: Vec<u64> = each!(self, pm => pm.tile_ids().into_iter().copied().collect());
        v.sort_unstable();
        v
    }
    /// ids exactly as returned (unsorted), to detect duplicates in the listing
    pub fn ids_raw(&self) -> Vec<u64> {
        each!(self, pm => pm.tile_ids().into_iter().copied().collect())
    }
    pub fn count(&self) -> usize {
        each!(self, pm => pm.num_tiles())
    }
    pub fn get(&mut self, id: u64) -> io::Result<Option<Vec<u8>>> {
        match self {
            Arch::New(pm) => pm.get_tile_by_id(id),
            Arch::Bytes(pm) => pm.get_tile_by_id(id),
            Arch::NewA(pm) => block_on(pm.get_tile_by_id_async(id)),
            Arch::BytesA(pm) => block_on(pm.get_tile_by_id_async(id)),
        }
    }
    pub fn get_zxy(&mut self, x: u64, y: u64, z: u8) -> io::Result<Option<Vec<u8>>> {
        match self {
            Arch::New(pm) => pm.get_tile(x, y, z),
            Arch::Bytes(pm) => pm.get_tile(x, y, z),
            Arch::NewA(pm) => block_on(pm.get_tile_async(x, y, z)),
            Arch::BytesA(pm) => block_on(pm.get_tile_async(x, y, z)),
        }
    }
    pub fn add(&mut self, id: u64, data: Vec<u8>) -> io::Result<()> {
        each!(self, pm => pm.add_tile(id, data))
    }
    pub fn remove(&mut self, id: u64) {
        each!(self, pm => pm.remove_tile(id))
    }
    pub fn fields(&self) -> Fields {
        each!(self, pm => fields_of(pm))
    }
    pub fn set_fields(&mut self, f: &Fields) {
        each!(self, pm => set_fields(pm, f))
    }
    pub fn store_counts(&self) -> (usize, usize, usize, usize) {
        each!(self, pm => pm.verif_store_counts())
    }
    /// Serialise with the writer that matches the handle kind.
    pub fn write(self) -> io::Result<Vec<u8>> {
        match self {
            Arch::New(pm) => write_sync(pm),
            Arch::Bytes(pm) => write_sync(pm),
            Arch::NewA(pm) => write_async(pm),
            Arch::BytesA(pm) => write_async(pm),
        }
    }
}

pub fn write_sync<R: io::Read + io::Seek>(pm: PMTiles<R>) -> io::Result<Vec<u8>> {
    let mut out = std::io::Cursor::new(Vec::<u8>::new());
    pm.to_writer(&mut out)?;
    Ok(out.into_inner())
}

pub fn write_async<R>(pm: PMTiles<R>) -> io::Result<Vec<u8>>
where
    R: futures::AsyncRead + futures::AsyncSeek + Send + Unpin,
{
    let mut out = futures::io::Cursor::new(Vec::<u8>::new());
    block_on(pm.to_async_writer(&mut out))?;
    Ok(out.into_inner())
}
