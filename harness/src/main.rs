//! vcheck: property-based / fuzzing checks for pmtiles2 (see /verif/DESIGN.md).

use vcheck::engine::{self, Ctx, Known, Recorder, Tier};
use vcheck::{props, sandbox};
use std::path::PathBuf;

fn usage() -> ! {
    eprintln!("usage: vcheck run --prop <ID> --tier <quick|thorough> [--verif-dir DIR]\n       vcheck replay --prop <ID> --file <path> [--verif-dir DIR]\n       vcheck worker | emit <file>");
    std::process::exit(2)
}

fn main() {
    let args: Vec<String> = std::env::args().collect();
    if args.len() < 2 {
        usage();
    }
    let mut prop = String::new();
    let mut tier = Tier::Quick;
    let mut file = String::new();
    let mut verif_dir = PathBuf::from(std::env::var("VERIF_DIR").unwrap_or_else(|_| "/verif".into()));
    let mut i = 2;
    while i < args.len() {
        match args[i].as_str() {
            "--prop" => {
                prop = args.get(i + 1).cloned().unwrap_or_default();
                i += 1;
            }
            "--tier" => {
                tier = match args.get(i + 1).map(String::as_str) {
                    Some("quick") => Tier::Quick,
                    Some("thorough") => Tier::Thorough,
                    _ => usage(),
                };
                i += 1;
            }
            "--file" => {
                file = args.get(i + 1).cloned().unwrap_or_default();
                i += 1;
            }
            "--verif-dir" => {
                verif_dir = PathBuf::from(args.get(i + 1).cloned().unwrap_or_default());
                i += 1;
            }
            other => {
                if file.is_empty() {
                    file = other.to_string();
                }
            }
        }
        i += 1;
    }
    engine::panics::install_hook();
    match args[1].as_str() {
        "run" => {
            let Some(p) = props::find(&prop) else {
                eprintln!("unknown property {prop}");
                std::process::exit(2)
            };
            let seed: u64 = std::env::var("VERIF_SEED").ok().and_then(|s| s.trim().parse::<u64>().ok()).unwrap_or(1);
            let lanes: usize = std::env::var("VERIF_LANES").ok().and_then(|s| s.parse().ok()).unwrap_or(16);
            let ctx = Ctx {
                prop: p.id,
                tier,
                seed,
                rec: Recorder::default(),
                known: Known::load(&verif_dir.join("known_findings.json")),
                verif_dir: verif_dir.clone(),
                lanes,
            };
            ctx.rec.set_known(p.id, &ctx.known);
            // a runaway allocation (possible when the library under test is broken) must not take the machine down
            unsafe {
                let lim = libc::rlimit { rlim_cur: 40 << 30, rlim_max: 40 << 30 };
                libc::setrlimit(libc::RLIMIT_AS, &lim);
            }
            sandbox::watchdog(tier.pick(1500, 6 * 3600));
            // committed regression replays first (seconds)
            props::run_regressions(&ctx, p);
            (p.run)(&ctx);
            let code = ctx.rec.finish(&verif_dir, p.id, p.level, tier, seed, &ctx.known);
            std::process::exit(code);
        }
        "replay" => {
            let Some(p) = props::find(&prop) else {
                eprintln!("unknown property {prop}");
                std::process::exit(2)
            };
            let code = props::replay_file(p, &PathBuf::from(&file), true);
            std::process::exit(code);
        }
        "worker" => sandbox::worker_main(),
        "c08-judge" => {
            // vcheck c08-judge <target> <artifact file>: re-judge a libFuzzer artifact through the sandboxed worker
            let target = args.get(2).cloned().unwrap_or_default();
            let path = args.get(3).cloned().unwrap_or_default();
            let data = std::fs::read(&path).unwrap_or_default();
            match vcheck::fuzz_entry::job_for(&target, &data) {
                None => std::process::exit(2),
                Some(job) => match props::c08::judge_with(&job, true) {
                    Ok(m) => {
                        println!("HOLDS {:?}", m.labels);
                        std::process::exit(0)
                    }
                    Err(f) => {
                        println!("FAILS {} :: {}", f.sig, f.msg);
                        std::process::exit(1)
                    }
                },
            }
        }
        "c08-corpus" => {
            let n = props::c08::write_fuzz_corpus(&PathBuf::from(&file)).unwrap_or(0);
            println!("{n} corpus files written to {file}");
            std::process::exit(if n > 0 { 0 } else { 2 });
        }
        "emit" => props::c16::emit_main(&file),
        _ => usage(),
    }
}
