//! Tile contents as recipes.

use crate::engine::Sm;
use proptest::prelude::*;
use serde::{Deserialize, Serialize};

/// kind:
///  0 random bytes            1 all bytes equal (seed&255)       2 text-like
///  3 near-duplicate of (0,len,seed>>8): last byte differs       4 near-dup: first byte differs
///  5 near-dup: one middle byte differs                           6 proper prefix of (0,len+1+..,seed)
///  7 hash-adversarial family (see DESIGN C01 note 3): 16-byte blocks whose first 8 bytes equal an
///    ahash fallback key word, so the second 8 bytes are multiplied by zero
///  8 the seed's little-endian bytes (distinct by construction)
///  9 random bytes followed by a long run of zero bytes (4096 + seed%4096, at most len-1): an uncompressed
///    raster / elevation tile
#[derive(Clone, Copy, Debug, PartialEq, Eq, Hash, Serialize, Deserialize, PartialOrd, Ord)]
pub struct ContentSpec {
    pub kind: u8,
    pub len: u32,
    pub seed: u32,
}

pub const ADV_KEY: u64 = 0xa409_3822_299f_31d0;

impl ContentSpec {
    pub fn bytes(&self) -> Vec<u8> {
        let len = self.len.max(1) as usize;
        let mut v = vec![0u8; len];
        match self.kind {
            1 => {
                for b in &mut v {
                    *b = (self.seed & 255) as u8;
                }
            }
            2 => {
                let words = [b"tile ".as_slice(), b"layer ", b"water ", b"road ", b"{\"k\":1} ", b"\n"];
                let mut r = Sm(u64::from(self.seed) ^ 0x7e87);
                let mut i = 0;
                while i < len {
                    let w = words[r.below(words.len() as u64) as usize];
                    for &c in w {
                        if i < len {
                            v[i] = c;
                            i += 1;
                        }
                    }
                }
            }
            3 | 4 | 5 => {
                let base = ContentSpec { kind: 0, len: self.len, seed: self.seed >> 8 };
                v = base.bytes();
                let k = match self.kind {
                    3 => len - 1,
                    4 => 0,
                    _ => len / 2,
                };
                v[k] ^= 1 + (self.seed & 0x7f) as u8;
            }
            6 => {
                let extra = 1 + (self.seed & 7);
                let base = ContentSpec { kind: 0, len: self.len + extra, seed: self.seed >> 8 };
                v = base.bytes();
                v.truncate(len);
            }
            7 => {
                // len is rounded up to 32; two blocks of [KEY, free 8 bytes]
                let n = ((len + 31) / 32 * 32).max(32);
                v = vec![0u8; n];
                let mut r = Sm(u64::from(self.seed) ^ 0xadad);
                for ch in v.chunks_mut(16) {
                    ch[..8].copy_from_slice(&ADV_KEY.to_le_bytes());
                    ch[8..16].copy_from_slice(&r.next().to_le_bytes());
                }
            }
            9 => {
                let mut r = Sm(u64::from(self.seed) ^ 0x2e80);
                r.fill(&mut v);
                let z = (4096 + (self.seed as usize & 0xfff)).min(len - 1);
                for b in &mut v[len - z..] {
                    *b = 0;
                }
                v[0] |= 1;
            }
            8 => {
                // the seed itself, little endian (distinct seeds < 2^(8*len) give distinct contents)
                let b = self.seed.to_le_bytes();
                for (i, x) in v.iter_mut().enumerate() {
                    *x = if i < 4 { b[i] } else { 0 };
                }
            }
            _ => {
                let mut r = Sm(u64::from(self.seed).wrapping_mul(0x9E37_79B9) ^ u64::from(self.len));
                r.fill(&mut v);
            }
        }
        v
    }
}

/// Content pool strategy: `n` specs with deliberate duplicates-by-recipe impossible (dups arise by
/// pool index reuse), but near-duplicates sharing length/prefix are frequent.
pub fn pool(max: usize, allow_big: bool, allow_adv: bool) -> impl Strategy<Value = Vec<ContentSpec>> {
    let len = prop_oneof![
        4 => Just(1u32),
        2 => Just(2u32),
        10 => 3u32..200,
        3 => 200u32..5000,
        if allow_big { 1 } else { 0 } => 90_000u32..110_000,
    ];
    let kind = if allow_adv {
        prop_oneof![6 => Just(0u8), 1 => Just(1u8), 2 => Just(2u8), 2 => Just(3u8), 1 => Just(4u8), 1 => Just(5u8), 2 => Just(6u8), 2 => Just(7u8)].boxed()
    } else {
        prop_oneof![6 => Just(0u8), 1 => Just(1u8), 2 => Just(2u8), 2 => Just(3u8), 1 => Just(4u8), 1 => Just(5u8), 2 => Just(6u8)].boxed()
    };
    // a few shared (len, seed>>8) bases so that near-duplicates really are near each other
    (proptest::collection::vec((kind, len, 0u32..4, any::<u8>()), 1..=max), any::<u32>()).prop_map(|(v, salt)| {
        let first_len = v[0].1;
        v.into_iter()
            .enumerate()
            .map(|(i, (kind, len, base, low))| {
                // near-dup kinds share the length of the first pool element half of the time
                let len = if (3..=6).contains(&kind) && i % 2 == 0 { first_len } else { len };
                let seed = match kind {
                    3 | 4 | 5 | 6 => ((salt & 0xffff) + base) << 8 | u32::from(low),
                    0 => {
                        if i % 3 == 0 {
                            (salt & 0xffff) + base // the base of the near-duplicates
                        } else {
                            salt.wrapping_add(i as u32 * 77 + u32::from(low))
                        }
                    }
                    _ => u32::from(low) | (base << 8),
                };
                ContentSpec { kind, len, seed }
            })
            .collect()
    })
}

/// now and then make pool[0] / pool[1] two contents of one length beyond 16 KiB that differ in a single byte in
/// the middle (same head, same tail): whatever identifies a content by a sample of its bytes confuses them
pub fn with_mid_pair(mut pool: Vec<ContentSpec>, flag: u8) -> Vec<ContentSpec> {
    if flag % 12 == 0 && pool.len() >= 2 {
        let len = [16_385u32, 20_000, 40_000, 70_001][usize::from(flag / 12) % 4];
        let s = 0x5151 + u32::from(flag);
        pool[0] = ContentSpec { kind: 0, len, seed: s };
        pool[1] = ContentSpec { kind: 5, len, seed: (s << 8) | 1 };
    }
    pool
}
