//! Valid directory entry lists (strictly ascending ids, non-overlapping runs, length >= 1).

use crate::spec::SEntry;
use proptest::prelude::*;
use serde::{Deserialize, Serialize};

/// One entry as a delta recipe, so that any vector of them is a *valid* list by construction.
#[derive(Clone, Copy, Debug, PartialEq, Eq, Hash, Serialize, Deserialize)]
pub struct EDelta {
    /// gap between the end of the previous run and this id (>= 0)
    pub gap: u64,
    pub run: u32,
    pub len: u32,
    /// offset mode: 0 contiguous with previous, 1 explicit absolute `off`, 2 contiguous-1, 3 contiguous+1, 4 zero
    pub omode: u8,
    pub off: u64,
}

pub const ID_END: u64 = 6_148_914_691_236_517_205; // (4^32-1)/3

pub fn build(ds: &[EDelta]) -> Vec<SEntry> {
    let mut out: Vec<SEntry> = Vec::with_capacity(ds.len());
    let mut next_id = 0u64; // first id not covered
    for d in ds {
        let span = u64::from(d.run.max(1));
        // top bit set: place the run so that it ends (gap & 0xffff) ids before the end of the tile-id domain
        let id = if d.gap >> 63 == 1 { ID_END.saturating_sub(span + (d.gap & 0xffff)).max(next_id) } else { next_id.saturating_add(d.gap) };
        if id >= ID_END || id + span > ID_END {
            break;
        }
        let contig = out.last().map_or(0, |p: &SEntry| p.off + u64::from(p.len));
        let off = match d.omode {
            0 => contig,
            2 => contig.saturating_sub(1),
            3 => contig + 1,
            4 => 0,
            _ => d.off,
        }
        .min(1u64 << 62);
        out.push(SEntry { id, off, len: d.len.max(1), run: d.run });
        next_id = id + span;
    }
    out
}

fn small_or_wide_u32() -> impl Strategy<Value = u32> {
    prop_oneof![
        6 => 1u32..200,
        2 => 1u32..100_000,
        1 => prop_oneof![Just(127u32), Just(128), Just(16383), Just(16384), Just(u32::MAX), Just(u32::MAX - 1), Just(1 << 21), Just((1 << 28) - 1), Just(1 << 28)],
        1 => any::<u32>(),
    ]
}

pub fn edelta() -> impl Strategy<Value = EDelta> {
    (
        prop_oneof![
            24 => 0u64..3,
            8 => 0u64..1000,
            4 => prop_oneof![Just(127u64), Just(128), Just(16384), Just(1 << 32), Just(1 << 56)],
            4 => 0u64..(1 << 50),
            // the last ids of the domain (the very last one most of the time)
            1 => prop_oneof![3 => Just(1u64 << 63), 1 => (0u64..3).prop_map(|k| (1u64 << 63) | k)],
        ],
        prop_oneof![4 => Just(1u32), 1 => Just(0u32), 3 => 2u32..50, 1 => small_or_wide_u32()],
        small_or_wide_u32(),
        prop_oneof![5 => Just(0u8), 3 => Just(1u8), 1 => Just(2u8), 1 => Just(3u8), 1 => Just(4u8)],
        prop_oneof![4 => 0u64..100_000, 1 => prop_oneof![Just(0u64), Just(1), Just(126), Just(127), Just(1 << 32), Just((1 << 62) - 1), Just(1 << 62)], 1 => 0u64..(1 << 62)],
    )
        .prop_map(|(gap, run, len, omode, off)| EDelta { gap, run, len, omode, off })
}

pub fn list(max: usize) -> impl Strategy<Value = Vec<EDelta>> {
    let n = prop_oneof![1 => Just(0usize), 1 => Just(1usize), 6 => 2usize..20, 3 => 20usize..=max.max(21)];
    n.prop_flat_map(|n| proptest::collection::vec(edelta(), n))
}
