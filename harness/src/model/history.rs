//! Edit histories: `Vec<Op>` + interpreter against the map model (proptest-state-machine is not
//! available offline, so the whole sequence is one shrinkable value).

use super::content::{self, ContentSpec};
use super::layout::{self, LGen};
use super::pick;
use crate::engine::{guarded, Fail};
use crate::libx::Arch;
use crate::spec::writer::{self, Layout};
use proptest::prelude::*;
use serde::{Deserialize, Serialize};
use std::collections::{BTreeMap, BTreeSet};

#[derive(Clone, Copy, Debug, PartialEq, Eq, Hash, Serialize, Deserialize)]
pub enum Op {
    Add(u16, u16),
    AddEmpty(u16),
    Remove(u16),
    Lookup(u16),
    LookupZxy(u16),
    List,
    Count,
    Reopen(bool),
}

#[derive(Clone, Debug, PartialEq, Eq, Hash, Serialize, Deserialize)]
pub enum Init {
    Empty(bool),
    /// library-written archive holding `n` of the alphabet ids, opened sync/async
    Written(u8, bool),
    Foreign(Layout, bool),
}

#[derive(Clone, Debug, PartialEq, Eq, Hash, Serialize, Deserialize)]
pub struct History {
    pub init: Init,
    pub ids: Vec<u64>,
    pub pool: Vec<ContentSpec>,
    pub internal: u8,
    pub ops: Vec<Op>,
}

pub struct Run {
    pub arch: Arch,
    pub model: BTreeMap<u64, Vec<u8>>,
    /// ids whose content currently lives in memory (added since the last open)
    pub mem: BTreeSet<u64>,
    pub contents: Vec<Vec<u8>>,
    pub ids: Vec<u64>,
    pub reopened: bool,
    pub stats: Stats,
}

#[derive(Clone, Copy, Debug, Default)]
pub struct Stats {
    pub replace_bound: bool,
    pub edit_shared: bool,
    pub edit_after_reopen: bool,
    pub reopens: u32,
    pub refused_empty: u32,
    pub removes_hit: u32,
}

impl History {
    pub fn id(&self, ids: &[u64], sel: u16) -> u64 {
        ids[pick(sel, ids.len())]
    }
}

fn hfail(pfx: &str, what: &str, msg: String) -> Fail {
    Fail::new(format!("{pfx}/{what}"), msg)
}

pub fn start(h: &History, pfx: &str) -> Result<Run, Fail> {
    let contents: Vec<Vec<u8>> = h.pool.iter().map(ContentSpec::bytes).collect();
    let mut ids = h.ids.clone();
    let mut model = BTreeMap::new();
    let arch = match &h.init {
        Init::Empty(asyncw) => {
            let mut a = if *asyncw { Arch::new_async() } else { Arch::new_sync() };
            let mut f = a.fields();
            f.internal = h.internal;
            a.set_fields(&f);
            a
        }
        Init::Written(n, asyncw) => {
            let mut a = Arch::new_sync();
            let mut f = a.fields();
            f.internal = h.internal;
            a.set_fields(&f);
            for k in 0..usize::from(*n).min(ids.len()) {
                let c = contents[k % contents.len()].clone();
                a.add(ids[k], c.clone()).map_err(|e| hfail(pfx, "harness", format!("{e}")))?;
                model.insert(ids[k], c);
            }
            let bytes = guarded("to_writer", || a.write())?.map_err(|e| hfail(pfx, "write-err", format!("{e}")))?;
            guarded("open", || if *asyncw { Arch::open_async(bytes) } else { Arch::open_sync(bytes) })?.map_err(|e| hfail(pfx, "open-err", format!("{e}")))?
        }
        Init::Foreign(l, asyncw) => {
            let b = writer::build(l);
            for (id, (off, len)) in &b.expected {
                model.insert(*id, b.bytes[*off as usize..*off as usize + *len as usize].to_vec());
            }
            // pull some of the archive's ids (and neighbours) into the alphabet
            for id in b.expected.keys().take(8) {
                ids.push(*id);
                ids.push(id + 1);
            }
            ids.sort_unstable();
            ids.dedup();
            let bytes = b.bytes;
            guarded("open", || if *asyncw { Arch::open_async(bytes) } else { Arch::open_sync(bytes) })?.map_err(|e| hfail(pfx, "open-err", format!("a spec-valid archive is rejected: {e}")))?
        }
    };
    if ids.is_empty() {
        ids.push(0);
    }
    Ok(Run { arch, model, mem: BTreeSet::new(), contents, ids, reopened: false, stats: Stats::default() })
}

/// Apply one op to the archive and the model, checking the op's own observable result.
/// Returns the id touched (if any).
pub fn step(r: &mut Run, op: &Op, pfx: &str) -> Result<Option<u64>, Fail> {
    let idof = |sel: u16| r.ids[pick(sel, r.ids.len())];
    match *op {
        Op::Add(i, c) => {
            let id = idof(i);
            let content = r.contents[pick(c, r.contents.len())].clone();
            if r.model.contains_key(&id) {
                r.stats.replace_bound = true;
                let old = &r.model[&id];
                if r.model.values().filter(|v| *v == old).count() > 1 {
                    r.stats.edit_shared = true;
                }
            }
            if r.reopened {
                r.stats.edit_after_reopen = true;
            }
            guarded("add_tile", || r.arch.add(id, content.clone()))?.map_err(|e| hfail(pfx, "add_tile-err", format!("add_tile({id}, {} bytes) refused: {e}", content.len())))?;
            r.model.insert(id, content);
            r.mem.insert(id);
            Ok(Some(id))
        }
        Op::AddEmpty(i) => {
            let id = idof(i);
            let res = guarded("add_tile", || r.arch.add(id, Vec::new()))?;
            if res.is_ok() {
                return Err(hfail(pfx, "empty-tile-accepted", format!("add_tile({id}, empty) returned Ok")));
            }
            r.stats.refused_empty += 1;
            Ok(Some(id))
        }
        Op::Remove(i) => {
            let id = idof(i);
            if let Some(old) = r.model.get(&id) {
                r.stats.removes_hit += 1;
                if r.model.values().filter(|v| *v == old).count() > 1 {
                    r.stats.edit_shared = true;
                }
                if r.reopened {
                    r.stats.edit_after_reopen = true;
                }
            }
            guarded("remove_tile", || r.arch.remove(id))?;
            r.model.remove(&id);
            r.mem.remove(&id);
            Ok(Some(id))
        }
        Op::Lookup(i) => {
            let id = idof(i);
            check_id(r, id, pfx)?;
            Ok(Some(id))
        }
        Op::LookupZxy(i) => {
            let id = idof(i);
            if let Some((z, x, y)) = crate::spec::hilbert::id_to_zxy(id) {
                let got = guarded("get_tile", || r.arch.get_zxy(x, y, z))?.map_err(|e| hfail(pfx, "get-err", format!("get_tile({x},{y},{z}): {e}")))?;
                if got.as_ref() != r.model.get(&id) {
                    return Err(hfail(pfx, "lookup-differs", format!("get_tile({x},{y},{z}) (id {id}) disagrees with the model")));
                }
            }
            Ok(Some(id))
        }
        Op::List => {
            check_listing(r, pfx)?;
            Ok(None)
        }
        Op::Count => {
            if r.arch.count() != r.model.len() {
                return Err(hfail(pfx, "count-differs", format!("num_tiles() = {} but the model holds {}", r.arch.count(), r.model.len())));
            }
            Ok(None)
        }
        Op::Reopen(asyncw) => {
            let fields = r.arch.fields();
            let a = std::mem::replace(&mut r.arch, Arch::new_sync());
            let bytes = guarded("to_writer", || a.write())?.map_err(|e| hfail(pfx, "write-err", format!("save failed: {e}")))?;
            let _ = fields;
            r.arch = guarded("open", || if asyncw { Arch::open_async(bytes) } else { Arch::open_sync(bytes) })?.map_err(|e| hfail(pfx, "open-err", format!("reopen failed: {e}")))?;
            r.mem.clear();
            r.reopened = true;
            r.stats.reopens += 1;
            Ok(None)
        }
    }
}

pub fn check_id(r: &mut Run, id: u64, pfx: &str) -> Result<(), Fail> {
    let got = guarded("get_tile_by_id", || r.arch.get(id))?.map_err(|e| hfail(pfx, "get-err", format!("get_tile_by_id({id}): {e}")))?;
    let want = r.model.get(&id);
    if got.as_ref() != want {
        return Err(hfail(
            pfx,
            "lookup-differs",
            format!(
                "get_tile_by_id({id}) = {} but the model says {}",
                got.as_ref().map_or("None".to_string(), |b| format!("{} bytes {:02x?}", b.len(), &b[..b.len().min(8)])),
                want.map_or("None".to_string(), |b| format!("{} bytes {:02x?}", b.len(), &b[..b.len().min(8)]))
            ),
        ));
    }
    Ok(())
}

pub fn check_listing(r: &Run, pfx: &str) -> Result<(), Fail> {
    let ids = r.arch.ids();
    let want: Vec<u64> = r.model.keys().copied().collect();
    if ids != want {
        return Err(hfail(pfx, "listing-differs", format!("tile_ids() = {:?}… ({}), model {:?}… ({})", &ids[..ids.len().min(8)], ids.len(), &want[..want.len().min(8)], want.len())));
    }
    if r.arch.count() != want.len() {
        return Err(hfail(pfx, "count-differs", format!("num_tiles() = {} but the model holds {}", r.arch.count(), want.len())));
    }
    Ok(())
}

pub fn check_all(r: &mut Run, pfx: &str) -> Result<(), Fail> {
    check_listing(r, pfx)?;
    let ids: Vec<u64> = r.ids.clone();
    for id in ids {
        check_id(r, id, pfx)?;
    }
    let keys: Vec<u64> = r.model.keys().copied().collect();
    for id in keys.iter().step_by(keys.len() / 200 + 1) {
        check_id(r, *id, pfx)?;
    }
    Ok(())
}

// ---- strategies ---------------------------------------------------------------------------

pub fn op(weights_edit: u32) -> impl Strategy<Value = Op> {
    prop_oneof![
        4 * weights_edit => (any::<u16>(), prop_oneof![3 => 0u16..16384, 1 => any::<u16>()]).prop_map(|(i, c)| Op::Add(i, c)),
        1 => any::<u16>().prop_map(Op::AddEmpty),
        2 * weights_edit => any::<u16>().prop_map(Op::Remove),
        2 => any::<u16>().prop_map(Op::Lookup),
        1 => any::<u16>().prop_map(Op::LookupZxy),
        1 => Just(Op::List),
        1 => Just(Op::Count),
        1 => any::<bool>().prop_map(Op::Reopen),
    ]
}

pub fn alphabet(max: usize) -> impl Strategy<Value = Vec<u64>> {
    prop_oneof![
        3 => (super::ids::id(), 2usize..8).prop_map(|(b, n)| (0..n as u64).map(|k| b.saturating_add(k).min(super::ids::domain_end() - 1)).collect::<Vec<_>>()),
        2 => super::ids::id_set(max.max(4)),
    ]
    .prop_map(|mut v| {
        if v.is_empty() {
            v.push(3);
        }
        v.sort_unstable();
        v.dedup();
        v
    })
}

pub fn history(max_ops: usize, max_ids: usize, foreign_entries: usize) -> impl Strategy<Value = History> {
    let init = prop_oneof![
        3 => any::<bool>().prop_map(Init::Empty),
        2 => (0u8..12, any::<bool>()).prop_map(|(n, a)| Init::Written(n, a)),
        2 => (layout::layout(LGen { max_entries: foreign_entries, big_runs: false }), any::<bool>()).prop_map(|(l, a)| Init::Foreign(l, a)),
    ];
    (init, alphabet(max_ids), (content::pool(10, false, false), any::<u8>()).prop_map(|(p, f)| content::with_mid_pair(p, f)), 1u8..=4, proptest::collection::vec(op(1), 1..=max_ops)).prop_map(|(init, ids, pool, internal, ops)| History { init, ids, pool, internal, ops })
}
