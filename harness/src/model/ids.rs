//! Tile-ID strategies inside the valid domain [0, (4^32-1)/3).

use crate::spec::hilbert;
use proptest::prelude::*;

pub fn domain_end() -> u64 {
    hilbert::domain_end()
}

/// A single id: dense small / cluster / zoom-block edges / uniform.
pub fn id() -> impl Strategy<Value = u64> {
    let end = domain_end();
    prop_oneof![
        6 => 0u64..64,
        3 => 0u64..5000,
        2 => (0u32..=32, 0u64..3, any::<bool>()).prop_map(move |(z, d, below)| {
            let b = hilbert::base(z) as u64;
            let v = if below { b.saturating_sub(d + 1) } else { b + d };
            v.min(end - 1)
        }),
        2 => 0u64..end,
        1 => (0u64..end, 0u64..40).prop_map(move |(b, d)| (b.saturating_add(d)).min(end - 1)),
        // ids around powers of two that matter for 32-bit arithmetic and varint widths
        1 => (prop_oneof![Just(7u32), Just(14), Just(21), Just(28), Just(31), Just(32), Just(33), Just(35), Just(42), Just(56)], 0u64..3, any::<bool>(), 1u64..4).prop_map(move |(sh, d, below, k)| {
            let b = k << sh;
            (if below { b.saturating_sub(d + 1) } else { b + d }).min(end - 1)
        }),
    ]
}

/// A set of ids with adjacency (runs) and clusters; returned sorted & deduplicated.
pub fn id_set(max: usize) -> impl Strategy<Value = Vec<u64>> {
    let end = domain_end();
    let block = (id(), 1usize..12, 1u64..3).prop_map(move |(start, n, step)| {
        (0..n as u64).map(|k| start.saturating_add(k * step).min(end - 1)).collect::<Vec<u64>>()
    });
    proptest::collection::vec(block, (max / 4).max(1)..=max.max(1)).prop_map(move |blocks| {
        let mut v: Vec<u64> = blocks.into_iter().flatten().collect();
        v.sort_unstable();
        v.dedup();
        v.truncate(max);
        v
    })
}
