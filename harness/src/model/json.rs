//! JSON metadata recipes. Floats are kept as bit patterns so that replay files are exact.

use proptest::prelude::*;
use serde::{Deserialize, Serialize};
use serde_json::{Map, Number, Value};

#[derive(Clone, Debug, PartialEq, Eq, Hash, Serialize, Deserialize)]
pub enum J {
    Null,
    Bool(bool),
    I(i64),
    U(u64),
    /// "short" float: <= 15 significant digits, |exp10| <= 22 (mantissa, exp10)
    Fs(i64, i8),
    /// "full" float: arbitrary finite f64 by bit pattern
    Ff(u64),
    S(String),
    /// a long string value (length, seed): metadata larger than typical codec / stream buffers
    Big(u32, u8),
    A(Vec<J>),
    O(Vec<(String, J)>),
}

pub fn short_float(m: i64, e: i8) -> f64 {
    // m has <= 15 digits; 10^|e| exact for |e| <= 22 -> one correctly rounded operation
    let p = 10f64.powi(i32::from(e.unsigned_abs()));
    if e >= 0 {
        m as f64 * p
    } else {
        m as f64 / p
    }
}

impl J {
    pub fn to_value(&self) -> Value {
        match self {
            J::Null => Value::Null,
            J::Bool(b) => Value::Bool(*b),
            J::I(i) => Value::Number((*i).into()),
            J::U(u) => Value::Number((*u).into()),
            J::Fs(m, e) => Number::from_f64(short_float(*m, *e)).map_or(Value::Null, Value::Number),
            J::Ff(b) => {
                let f = f64::from_bits(*b);
                Number::from_f64(f).map_or(Value::Null, Value::Number)
            }
            J::S(s) => Value::String(s.clone()),
            J::Big(n, seed) => {
                let words = ["tile", "layer", "water", "road", "\u{e9}t\u{e9}", "\"q\"", "\\", "\u{1F5FA}"];
                let mut r = crate::engine::Sm(u64::from(*seed) + 17);
                let mut out = String::with_capacity(*n as usize + 8);
                while out.len() < *n as usize {
                    out.push_str(words[r.below(words.len() as u64) as usize]);
                    out.push(' ');
                }
                Value::String(out)
            }
            J::A(a) => Value::Array(a.iter().map(J::to_value).collect()),
            J::O(o) => {
                let mut m = Map::new();
                for (k, v) in o {
                    m.insert(k.clone(), v.to_value());
                }
                Value::Object(m)
            }
        }
    }
    pub fn has_full_float(&self) -> bool {
        match self {
            J::Ff(_) => true,
            J::A(a) => a.iter().any(J::has_full_float),
            J::O(o) => o.iter().any(|(_, v)| v.has_full_float()),
            _ => false,
        }
    }
    pub fn has_short_float(&self) -> bool {
        match self {
            J::Fs(..) => true,
            J::A(a) => a.iter().any(J::has_short_float),
            J::O(o) => o.iter().any(|(_, v)| v.has_short_float()),
            _ => false,
        }
    }
    pub fn is_empty_object(&self) -> bool {
        matches!(self, J::O(o) if o.is_empty())
    }
}

fn key() -> impl Strategy<Value = String> {
    prop_oneof![
        6 => "[a-z_]{1,8}",
        1 => Just(String::new()),
        2 => "\\PC{0,6}",
        1 => proptest::collection::vec(any::<char>(), 0..5).prop_map(|v| v.into_iter().collect()),
        1 => "[\"\\\\/\u{0}-\u{1f}]{1,4}",
    ]
}

fn leaf(full_floats: bool) -> BoxedStrategy<J> {
    let ff = if full_floats { 2 } else { 0 };
    prop_oneof![
        1 => Just(J::Null),
        1 => any::<bool>().prop_map(J::Bool),
        2 => any::<i64>().prop_map(J::I),
        1 => any::<u64>().prop_map(J::U),
        2 => (-999_999_999_999_999i64..=999_999_999_999_999, -22i8..=22).prop_map(|(m, e)| J::Fs(m, e)),
        ff => any::<u64>().prop_filter_map("finite", |b| if f64::from_bits(b).is_finite() { Some(J::Ff(b)) } else { None }),
        3 => key().prop_map(J::S),
    ]
    .boxed()
}

/// A JSON *object* of depth <= 3.
pub fn object(full_floats: bool) -> impl Strategy<Value = J> {
    let l = leaf(full_floats);
    let inner = l.prop_recursive(3, 24, 5, |inner| {
        prop_oneof![
            proptest::collection::vec(inner.clone(), 0..5).prop_map(J::A),
            proptest::collection::vec((key(), inner), 0..5).prop_map(J::O),
        ]
    });
    prop_oneof![
        8 => Just(J::O(vec![])),
        32 => proptest::collection::vec((key(), inner.clone()), 0..6).prop_map(J::O),
        // now and then one long string value: metadata larger than typical codec / stream buffers
        1 => (proptest::collection::vec((key(), inner), 0..3), prop_oneof![3 => Just(33_000u32), 2 => Just(70_000), 1 => Just(300_000)], any::<u8>()).prop_map(|(mut o, n, s)| {
            o.push(("blob".to_string(), J::Big(n, s)));
            J::O(o)
        }),
    ]
}

/// Every non-object JSON kind (for C19).
pub fn non_object() -> impl Strategy<Value = J> {
    prop_oneof![
        Just(J::Null),
        any::<bool>().prop_map(J::Bool),
        any::<i64>().prop_map(J::I),
        (-99999i64..99999, -5i8..5).prop_map(|(m, e)| J::Fs(m, e)),
        key().prop_map(J::S),
        proptest::collection::vec(leaf(false), 0..4).prop_map(J::A),
        object(false).prop_map(|o| J::A(vec![o])),
        // strings whose *content* is JSON text (double-encoded metadata): still strings, not objects
        prop_oneof![Just("{}"), Just("{\"name\":\"x\"}"), Just(" {}"), Just("{\"a\":{\"b\":[1,2]}}"), Just("[]"), Just("null"), Just("{")].prop_map(|t| J::S(t.to_string())),
        object(false).prop_map(|o| J::S(o.to_value().to_string())),
        // long values, mostly multi-byte characters (whatever a reader quotes, truncates or measures)
        "\\PC{20,200}".prop_map(J::S),
        (20u32..3000, any::<u8>()).prop_map(|(n, s)| J::Big(n, s)),
        (proptest::collection::vec("\\PC{0,80}".prop_map(J::S), 1..6)).prop_map(J::A),
    ]
}
