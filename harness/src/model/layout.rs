//! proptest strategy for foreign archive layouts (spec::writer::Layout).

use super::content;
use super::json;
use crate::spec::codec::Params;
use crate::spec::writer::{Layout, TEnt};
use proptest::prelude::*;

fn tent() -> impl Strategy<Value = TEnt> {
    (
        prop_oneof![6 => Just(0u32), 2 => 1u32..4, 1 => 4u32..100_000],
        prop_oneof![6 => Just(1u32), 3 => 2u32..10, 1 => 10u32..1000],
        prop_oneof![3 => 0u16..8192, 2 => any::<u16>()],
    )
        .prop_map(|(gap, run, sel)| TEnt { gap, run, sel })
}

#[derive(Clone, Copy, Debug)]
pub struct LGen {
    pub max_entries: usize,
    pub big_runs: bool,
}

/// occasionally make pool[1] a proper prefix of pool[0] (stored overlapped when `overlap_prefixes` is set)
fn with_prefix_pair(mut pool: Vec<content::ContentSpec>, flag: u8) -> Vec<content::ContentSpec> {
    if flag % 3 == 0 && pool.len() >= 2 {
        let s = u32::from(flag) * 257 + 11; // < 2^24
        let e = u32::from(flag / 3) & 7;
        let extra = 1 + e;
        let len = 2 + u32::from(flag % 50) + extra;
        pool[0] = content::ContentSpec { kind: 0, len, seed: s };
        pool[1] = content::ContentSpec { kind: 6, len: len - extra, seed: (s << 8) | e };
    }
    pool
}

/// occasionally replace one pool content by a big one (tens to hundreds of KiB, odd sizes around the
/// 16 KiB / 64 KiB chunking boundaries readers like to use)
fn with_big_tile(mut pool: Vec<content::ContentSpec>, pick_big: u8, size_sel: u8) -> Vec<content::ContentSpec> {
    if pick_big % 12 == 0 && !pool.is_empty() {
        let sizes = [16_385u32, 20_000, 32_769, 65_536, 65_537, 70_001, 16_385, 65_537, 131_073, 200_000, 300_001, 20_000];
        let i = usize::from(pick_big / 12) % pool.len();
        pool[i] = content::ContentSpec { kind: 0, len: sizes[usize::from(size_sel) % sizes.len()], seed: u32::from(size_sel) * 7 + 1 };
    }
    pool
}

pub fn layout(g: LGen) -> impl Strategy<Value = Layout> {
    let n = prop_oneof![1 => Just(0usize), 1 => Just(1usize), 6 => 2usize..40, 3 => 40usize..=g.max_entries.max(41)];
    let entries = n.prop_flat_map(|n| proptest::collection::vec(tent(), n));
    let first_id = prop_oneof![4 => Just(0u64), 3 => 0u64..100, 2 => 0u64..(1 << 40), 1 => (0u64..1000).prop_map(|d| crate::spec::hilbert::domain_end() - 200_000 - d)];
    let coords = proptest::array::uniform6(prop_oneof![2 => any::<i32>(), 2 => -1_800_000_000i32..=1_800_000_000, 1 => Just(21i32), 1 => Just(-21i32), 1 => Just(i32::MIN), 1 => Just(i32::MAX), 1 => Just(0i32)]);
    (
        (1u8..=4, any::<u8>(), any::<u8>(), 0u8..24, proptest::array::uniform5(prop_oneof![3 => Just(0u16), 2 => 1u16..300])),
        (1u8..=3, prop_oneof![2 => 1u16..4, 3 => 4u16..64], 1u16..8, any::<bool>(), prop_oneof![1 => Just(0u32), 1 => any::<u32>()], prop_oneof![2 => Just(0u8), 1 => 1u8..20]),
        (first_id, entries, (content::pool(10, false, false), any::<u8>(), any::<u8>(), any::<u8>()).prop_map(|(p, a, b, c)| with_big_tile(with_prefix_pair(p, c), a, b)), 0u8..4),
        (prop_oneof![1 => Just(None), 3 => json::object(false).prop_map(Some)], 0u8..=5, 0u8..=4, any::<[u8; 3]>(), coords, prop_oneof![4 => Just(0u8), 1 => Just(7u8), 1 => 0u8..8], any::<bool>(), prop_oneof![3 => Just(0u32), 2 => 1u32..=u32::MAX], prop_oneof![7 => Just(false), 1 => Just(true)]),
    )
        .prop_map(
            |((internal, level, flag, order, gaps), (depth, fan1, fan2, elide, leaf_shuffle, leaf_gap), (first_id, entries, pool, data_mode), (meta, tile_type, tile_comp, zooms, coords, zero_counters, overlap_prefixes, inline, to_end))| Layout {
                internal,
                params: Params { level, flag },
                order,
                gaps,
                depth,
                fan1,
                fan2,
                elide,
                leaf_shuffle,
                leaf_gap,
                first_id,
                entries,
                pool,
                data_mode,
                meta,
                tile_type,
                tile_comp,
                zooms,
                coords,
                zero_counters,
                overlap_prefixes,
                inline,
                to_end,
            },
        )
        .prop_map(move |mut l| {
            if g.big_runs && l.entries.len() > 3 && l.first_id % 7 == 0 {
                l.entries[1].run = 100_000;
            }
            // a big tile stored once per entry would make archives of hundreds of megabytes
            if l.data_mode % 4 == 2 && l.pool.iter().any(|c| c.len > 10_000) {
                l.data_mode = 0;
            }
            l
        })
}
