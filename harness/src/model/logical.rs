//! The logical archive recipe: tiles (id -> pool index), metadata, settings, insertion order.

use super::content::{self, ContentSpec};
use super::json::{self, J};
use super::settings::{self, Settings};
use super::{ids, pick};
use crate::engine::Sm;
use crate::libx::{Arch, Fields};
use proptest::prelude::*;
use serde::{Deserialize, Serialize};
use std::collections::BTreeMap;

#[derive(Clone, Debug, PartialEq, Eq, Hash, Serialize, Deserialize)]
pub struct Logical {
    pub pool: Vec<ContentSpec>,
    /// (id, pool selector); ids sorted & unique
    pub tiles: Vec<(u64, u16)>,
    pub order_seed: u32,
    pub meta: J,
    pub settings: Settings,
    /// tiles (selectors into `tiles`) that are added a second time with byte-identical content after the
    /// insertion pass, and tiles that first receive another content of the pool (overwritten by the right one)
    #[serde(default)]
    pub readds: Vec<u16>,
    #[serde(default)]
    pub wrong_first: Vec<(u16, u16)>,
}

impl Logical {
    pub fn contents(&self) -> Vec<Vec<u8>> {
        self.pool.iter().map(ContentSpec::bytes).collect()
    }
    pub fn pool_index(&self, sel: u16) -> usize {
        pick(sel, self.pool.len())
    }
    /// id -> bytes
    pub fn map(&self) -> BTreeMap<u64, Vec<u8>> {
        let c = self.contents();
        self.tiles.iter().map(|(id, s)| (*id, c[self.pool_index(*s)].clone())).collect()
    }
    /// insertion order (a permutation of tiles determined by order_seed)
    pub fn insertion_order(&self, seed: u32) -> Vec<usize> {
        let mut idx: Vec<usize> = (0..self.tiles.len()).collect();
        let mut r = Sm(u64::from(seed) ^ 0x0dde);
        for i in (1..idx.len()).rev() {
            let j = r.below(i as u64 + 1) as usize;
            idx.swap(i, j);
        }
        if seed == 0 {
            idx.sort_unstable();
        }
        idx
    }
    pub fn fields(&self) -> Fields {
        let meta = match self.meta.to_value() {
            serde_json::Value::Object(m) => m,
            _ => serde_json::Map::new(),
        };
        Fields {
            tile_type: self.settings.tile_type,
            tile_comp: self.settings.tile_comp,
            internal: self.settings.internal,
            min_zoom: self.settings.min_zoom,
            max_zoom: self.settings.max_zoom,
            center_zoom: self.settings.center_zoom,
            coords: [
                self.settings.coords[0].f(),
                self.settings.coords[1].f(),
                self.settings.coords[2].f(),
                self.settings.coords[3].f(),
                self.settings.coords[4].f(),
                self.settings.coords[5].f(),
            ],
            meta,
        }
    }
    /// Build through the public API (`new`/`new_async` + add_tile in the recipe's order).
    pub fn build(&self, asyncw: bool) -> Result<Arch, String> {
        let mut a = if asyncw { Arch::new_async() } else { Arch::new_sync() };
        a.set_fields(&self.fields());
        let c = self.contents();
        if !self.tiles.is_empty() {
            for (t, w) in &self.wrong_first {
                let (id, _) = self.tiles[pick(*t, self.tiles.len())];
                a.add(id, c[pick(*w, c.len())].clone()).map_err(|e| format!("add_tile({id}) failed: {e}"))?;
            }
        }
        for i in self.insertion_order(self.order_seed) {
            let (id, s) = self.tiles[i];
            a.add(id, c[self.pool_index(s)].clone()).map_err(|e| format!("add_tile({id}) failed: {e}"))?;
        }
        if !self.tiles.is_empty() {
            for t in &self.readds {
                let (id, s) = self.tiles[pick(*t, self.tiles.len())];
                a.add(id, c[self.pool_index(s)].clone()).map_err(|e| format!("re-add_tile({id}) failed: {e}"))?;
            }
        }
        Ok(a)
    }
    pub fn has_dup(&self) -> bool {
        let mut seen = std::collections::BTreeSet::new();
        self.tiles.iter().any(|(_, s)| !seen.insert(self.pool_index(*s)))
    }
    pub fn has_adversarial(&self) -> bool {
        self.tiles.iter().any(|(_, s)| self.pool[self.pool_index(*s)].kind == 7)
    }
    pub fn has_near_dup(&self) -> bool {
        self.tiles.iter().any(|(_, s)| (3..=6).contains(&self.pool[self.pool_index(*s)].kind))
    }
}

#[derive(Clone, Copy, Debug)]
pub struct Gen {
    pub max_tiles: usize,
    pub allow_big: bool,
    pub allow_adv: bool,
    pub full_floats: bool,
}

fn selector() -> impl Strategy<Value = u16> {
    prop_oneof![3 => 0u16..8192, 2 => any::<u16>()]
}

pub fn logical(g: Gen) -> impl Strategy<Value = Logical> {
    let n = prop_oneof![
        1 => Just(0usize),
        1 => Just(1usize),
        6 => 2usize..=20.min(g.max_tiles.max(2)),
        2 => 20usize..=g.max_tiles.max(21),
    ];
    (n, (content::pool(12, g.allow_big, g.allow_adv), any::<u8>()).prop_map(|(p, f)| content::with_mid_pair(p, f)), json::object(g.full_floats), settings::settings(settings::internal_any()), any::<u32>())
        .prop_flat_map(move |(n, pool, meta, settings, order_seed)| {
            let blocks = (n / 3).max(1);
            (ids::id_set(n.max(1)).prop_map(move |v| v), proptest::collection::vec(selector(), n.max(1)), Just((pool, meta, settings, order_seed, n, blocks)))
        })
        .prop_map(|(idv, sels, (pool, meta, settings, order_seed, n, _))| {
            let mut tiles: Vec<(u64, u16)> = idv.into_iter().zip(sels).collect();
            tiles.truncate(n);
            Logical { pool, tiles, order_seed, meta, settings, readds: Vec::new(), wrong_first: Vec::new() }
        })
        .prop_flat_map(|l| {
            (Just(l), prop_oneof![3 => Just(Vec::new()), 2 => proptest::collection::vec(any::<u16>(), 1..4)], prop_oneof![3 => Just(Vec::new()), 1 => proptest::collection::vec(any::<(u16, u16)>(), 1..3)])
        })
        .prop_map(|(mut l, readds, wrong_first)| {
            l.readds = readds;
            l.wrong_first = wrong_first;
            l
        })
}

/// Large archive recipe (forces leaf spill): `n` ids in dense runs with high-entropy lengths.
pub fn large(n: usize, seed: u64, internal: u8) -> Logical {
    let mut r = Sm(seed);
    let mut pool = Vec::new();
    for i in 0..48u32 {
        pool.push(ContentSpec { kind: 0, len: 1 + (r.below(3000) as u32), seed: i + (seed as u32) * 64 });
    }
    let mut tiles = Vec::with_capacity(n);
    let mut id = r.below(1000);
    for _ in 0..n {
        id += 1 + if r.below(4) == 0 { r.below(100_000) } else { r.below(3) };
        tiles.push((id, r.below(65536) as u16));
    }
    Logical {
        pool,
        tiles,
        order_seed: seed as u32 | 1,
        readds: Vec::new(),
        wrong_first: Vec::new(),
        meta: J::O(vec![("name".into(), J::S("large".into())), ("n".into(), J::U(n as u64))]),
        settings: Settings {
            tile_type: 1,
            tile_comp: 2,
            internal,
            min_zoom: 0,
            max_zoom: 14,
            center_zoom: 7,
            coords: [settings::Fb::of(-10.5), settings::Fb::of(-20.25), settings::Fb::of(10.5), settings::Fb::of(20.25), settings::Fb::of(0.0), settings::Fb::of(0.0)],
        },
    }
}

/// Dense archive recipe: `n` distinct equal-length tiny tiles on (mostly) consecutive ids. Its directory
/// is long but highly compressible, so with a codec the whole list stays in a *single* root directory of
/// far more than 16384 entries; uncompressed every entry costs exactly 4 bytes (delta 1, run 1, len < 128,
/// offset elided), which allows exact steering of the root size: 2 + 4n bytes for 128 <= n < 16384.
pub fn dense(n: usize, seed: u64, internal: u8) -> Logical {
    let pool: Vec<ContentSpec> = (0..n as u32).map(|i| ContentSpec { kind: 8, len: 3, seed: i + 1 }).collect();
    let first = 5 + seed % 100;
    let tiles: Vec<(u64, u16)> = Vec::new();
    let mut l = large(0, seed, internal);
    l.pool = pool;
    l.tiles = tiles;
    // pool selectors are u16 (monotone map): with n > 65536 contents not every content is addressable; keep n <= 60000
    let n = n.min(60_000);
    l.pool.truncate(n);
    l.tiles = (0..n).map(|i| (first + i as u64, (((i as u64) << 16) / n as u64 + if i > 0 { 1 } else { 0 }).min(65535) as u16)).collect();
    // make sure selector i maps to pool index i
    for (i, t) in l.tiles.iter_mut().enumerate() {
        let mut sel = ((i as u64) << 16).div_ceil(n as u64) as u16;
        while super::pick(sel, n) < i {
            sel += 1;
        }
        t.1 = sel;
    }
    l.meta = J::O(vec![("name".into(), J::S("dense".into()))]);
    l
}
