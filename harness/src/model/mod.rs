//! Logical archive model and proptest strategies. Cases are compact *recipes* (serialisable,
//! hashable, shrinkable); bytes are expanded deterministically from them.

pub mod content;
pub mod ids;
pub mod json;
pub mod settings;
pub mod logical;
pub mod entries;
pub mod ranges;
pub mod layout;
pub mod history;

pub use content::ContentSpec;
pub use json::J;
pub use settings::{Fb, Settings};
pub use logical::Logical;

/// Monotone index mapping (shrinks toward 0): i in 0..=65535 -> 0..len
pub fn pick(i: u16, len: usize) -> usize {
    if len == 0 {
        0
    } else {
        ((u64::from(i) * len as u64) >> 16) as usize
    }
}
