//! Tile-ID filter ranges: all 9 bound-kind combinations, endpoints steered onto interesting ids.

use proptest::prelude::*;
use serde::{Deserialize, Serialize};
use std::ops::Bound;

#[derive(Clone, Copy, Debug, PartialEq, Eq, Hash, Serialize, Deserialize)]
pub struct RangeSpec {
    /// 0 unbounded, 1 included, 2 excluded
    pub lo_kind: u8,
    pub hi_kind: u8,
    /// endpoint selectors: mode 0: pick from the steering list by index `sel` (+delta-1), 1: absolute
    pub lo_mode: u8,
    pub lo_sel: u16,
    pub lo_delta: u8,
    pub lo_abs: u64,
    pub hi_mode: u8,
    pub hi_sel: u16,
    pub hi_delta: u8,
    pub hi_abs: u64,
}

impl RangeSpec {
    pub fn bounds(&self, steer: &[u64]) -> (Bound<u64>, Bound<u64>) {
        let ep = |mode: u8, sel: u16, delta: u8, abs: u64| -> u64 {
            if mode == 0 && !steer.is_empty() {
                let i = super::pick(sel, steer.len());
                let b = steer[i];
                match delta % 9 {
                    0 => b.saturating_sub(1),
                    1 => b,
                    2 => b.saturating_add(1),
                    3 => b.saturating_add(2),
                    4 => b.saturating_sub(2),
                    // somewhere between this steering point and the next one (the inside of a run or of a gap)
                    5 => b + steer.get(i + 1).map_or(3, |n| n.saturating_sub(b) / 2),
                    6 => b.saturating_add(7),
                    // far behind the steering point by a multiple of 2^32 (plus a little): distances that do not
                    // fit 32 bits
                    7 => b.saturating_add(1 << 32),
                    _ => b.saturating_add((1 << 32) + 2),
                }
            } else {
                abs
            }
        };
        let lo = ep(self.lo_mode, self.lo_sel, self.lo_delta, self.lo_abs);
        // mode 2: the upper endpoint sits 0..6 ids above the lower one (pin-point ranges)
        let hi = if self.hi_mode == 2 { lo.saturating_add(u64::from(self.hi_delta % 7)) } else { ep(self.hi_mode, self.hi_sel, self.hi_delta, self.hi_abs) };
        let mk = |k: u8, v: u64| match k % 3 {
            0 => Bound::Unbounded,
            1 => Bound::Included(v),
            _ => Bound::Excluded(v),
        };
        (mk(self.lo_kind, lo), mk(self.hi_kind, hi))
    }
}

/// independent `contains`
pub fn contains(b: &(Bound<u64>, Bound<u64>), id: u64) -> bool {
    let lo_ok = match b.0 {
        Bound::Unbounded => true,
        Bound::Included(v) => id >= v,
        Bound::Excluded(v) => id > v,
    };
    let hi_ok = match b.1 {
        Bound::Unbounded => true,
        Bound::Included(v) => id <= v,
        Bound::Excluded(v) => id < v,
    };
    lo_ok && hi_ok
}

fn abs() -> impl Strategy<Value = u64> {
    prop_oneof![3 => Just(0u64), 1 => Just(1u64), 1 => Just(u64::MAX), 1 => Just(u64::MAX - 1), 3 => 0u64..5000, 1 => any::<u64>()]
}

pub fn range() -> impl Strategy<Value = RangeSpec> {
    (0u8..3, 0u8..3, (prop_oneof![3 => Just(0u8), 1 => Just(1u8)], any::<u16>(), prop_oneof![3 => 0u8..3, 1 => 3u8..9], abs()), (prop_oneof![3 => Just(0u8), 1 => Just(1u8), 1 => Just(2u8)], any::<u16>(), prop_oneof![3 => 0u8..3, 1 => 3u8..9], abs())).prop_map(
        |(lo_kind, hi_kind, (lo_mode, lo_sel, lo_delta, lo_abs), (hi_mode, hi_sel, hi_delta, hi_abs))| RangeSpec {
            lo_kind,
            hi_kind,
            lo_mode,
            lo_sel,
            lo_delta,
            lo_abs,
            hi_mode,
            hi_sel,
            hi_delta,
            hi_abs,
        },
    )
}
