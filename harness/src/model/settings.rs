//! Header settings recipes.

use proptest::prelude::*;
use serde::{Deserialize, Serialize};

/// f64 by bit pattern (exact in replay files); Debug prints the float.
#[derive(Clone, Copy, PartialEq, Eq, Hash, Serialize, Deserialize)]
pub struct Fb(pub u64);
impl Fb {
    pub fn f(self) -> f64 {
        f64::from_bits(self.0)
    }
    pub fn of(f: f64) -> Fb {
        Fb(f.to_bits())
    }
}
impl std::fmt::Debug for Fb {
    fn fmt(&self, f: &mut std::fmt::Formatter<'_>) -> std::fmt::Result {
        write!(f, "{:e}", self.f())
    }
}

#[derive(Clone, Debug, PartialEq, Eq, Hash, Serialize, Deserialize)]
pub struct Settings {
    pub tile_type: u8,   // 0..=5
    pub tile_comp: u8,   // 0..=4
    pub internal: u8,    // 1..=4
    pub min_zoom: u8,
    pub max_zoom: u8,
    pub center_zoom: u8,
    /// min_lon, min_lat, max_lon, max_lat, center_lon, center_lat
    pub coords: [Fb; 6],
}

pub fn tile_type_lib(c: u8) -> pmtiles2::TileType {
    use pmtiles2::TileType::*;
    match c {
        1 => Mvt,
        2 => Png,
        3 => Jpeg,
        4 => WebP,
        5 => AVIF,
        _ => Unknown,
    }
}
pub fn tile_type_code(t: pmtiles2::TileType) -> u8 {
    use pmtiles2::TileType::*;
    match t {
        Unknown => 0,
        Mvt => 1,
        Png => 2,
        Jpeg => 3,
        WebP => 4,
        AVIF => 5,
    }
}

/// A coordinate in [-lim, lim]: exact multiples of 1e-7, half-step ties and +-1ulp neighbours,
/// negatives, +-0, range ends, uniform. `kind` label is returned for classification.
pub fn coord(lim: f64) -> impl Strategy<Value = Fb> {
    let steps = (lim * 1e7) as i64;
    prop_oneof![
        3 => (-steps..=steps).prop_map(|n| Fb::of(n as f64 / 1e7)),
        3 => (-steps..steps, -1i64..=1).prop_map(|(n, ulp)| {
            let v = (n as f64 + 0.5) / 1e7;
            let b = v.to_bits() as i64 + if v >= 0.0 { ulp } else { -ulp };
            Fb(b as u64)
        }),
        1 => prop_oneof![Just(0.0f64), Just(-0.0), Just(lim), Just(-lim), Just(0.000_000_21), Just(-0.000_000_21), Just(1e-9), Just(-1e-300)].prop_map(Fb::of),
        3 => (-lim..=lim).prop_map(Fb::of),
        1 => (-20i64..=20, 1u32..10).prop_map(|(n, d)| Fb::of(n as f64 * 1e-7 + f64::from(d) * 1e-8)),
    ]
}

pub fn settings(internal: impl Strategy<Value = u8>) -> impl Strategy<Value = Settings> {
    (
        0u8..=5,
        0u8..=4,
        internal,
        any::<u8>(),
        any::<u8>(),
        any::<u8>(),
        [coord(180.0), coord(90.0), coord(180.0), coord(90.0), coord(180.0), coord(90.0)],
    )
        .prop_map(|(tile_type, tile_comp, internal, min_zoom, max_zoom, center_zoom, coords)| Settings {
            tile_type,
            tile_comp,
            internal,
            min_zoom,
            max_zoom,
            center_zoom,
            coords,
        })
}

pub fn internal_any() -> impl Strategy<Value = u8> {
    prop_oneof![3 => Just(1u8), 3 => Just(2u8), 1 => Just(3u8), 2 => Just(4u8)]
}
