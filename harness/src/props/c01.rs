//! C01 — write -> read round trip preserves every tile, the metadata and header settings.

use crate::engine::{guarded, run_list, run_proptest, CaseResult, Ctx, Fail, Meta, PtCfg, Sm};
use crate::libx::Arch;
use crate::model::logical::{self, Gen, Logical};
use crate::spec::{header, hilbert};
use proptest::prelude::*;
use serde::{Deserialize, Serialize};
use serde_json::Value;
use std::collections::BTreeMap;

#[derive(Clone, Debug, Serialize, Deserialize)]
pub struct RtCase {
    pub l: Logical,
    pub asyncw: bool,
    pub open_async: bool,
}

pub fn codec_label(c: u8) -> &'static str {
    match c {
        1 => "internal-none",
        2 => "internal-gzip",
        3 => "internal-brotli",
        _ => "internal-zstd",
    }
}

/// Build through the public API and serialise. Errors carry C01 signatures (prefix replaced by callers).
pub fn write_logical(l: &Logical, asyncw: bool) -> Result<Vec<u8>, Fail> {
    let kind = if asyncw { "async" } else { "sync" };
    let a = l.build(asyncw).map_err(|e| Fail::new("C01/add_tile-err", e))?;
    guarded(if asyncw { "to_async_writer" } else { "to_writer" }, || a.write())?
        .map_err(|e| Fail::new(format!("C01/write-err/{kind}"), format!("writing a valid archive failed: {e}")))
}

/// ids to probe: all when small, else boundaries + seeded sample
pub fn probe_ids(model: &BTreeMap<u64, Vec<u8>>, seed: u64) -> Vec<u64> {
    let ids: Vec<u64> = model.keys().copied().collect();
    if ids.len() <= 2000 {
        return ids;
    }
    let mut out: Vec<u64> = ids.iter().take(200).copied().collect();
    out.extend(ids.iter().rev().take(200));
    let mut r = Sm(seed);
    for _ in 0..1200 {
        out.push(ids[r.below(ids.len() as u64) as usize]);
    }
    out.sort_unstable();
    out.dedup();
    out
}

pub fn non_members(model: &BTreeMap<u64, Vec<u8>>, seed: u64) -> Vec<u64> {
    let mut c: Vec<u64> = vec![0, 1, hilbert::domain_end() - 1, hilbert::domain_end(), u64::MAX];
    let mut r = Sm(seed ^ 0x55);
    for (k, id) in model.keys().enumerate() {
        if k < 400 || r.below(20) == 0 {
            c.push(id.saturating_sub(1));
            c.push(id.saturating_add(1));
        }
    }
    for _ in 0..20 {
        c.push(r.next() % hilbert::domain_end());
    }
    c.sort_unstable();
    c.dedup();
    c.retain(|i| !model.contains_key(i));
    c
}

/// Compare an opened archive with the model (tiles only).
pub fn compare_tiles(a: &mut Arch, model: &BTreeMap<u64, Vec<u8>>, l: Option<&Logical>, seed: u64, pfx: &str) -> Result<(), Fail> {
    let ids = a.ids();
    let raw = a.ids_raw();
    ensure!(raw.len() == ids.len() && { let mut d = ids.clone(); d.dedup(); d.len() == ids.len() }, format!("{pfx}/ids-duplicated"), "tile_ids() lists an id twice");
    let want: Vec<u64> = model.keys().copied().collect();
    if ids != want {
        let missing: Vec<u64> = want.iter().filter(|i| !ids.contains(i)).take(5).copied().collect();
        let extra: Vec<u64> = ids.iter().filter(|i| !model.contains_key(i)).take(5).copied().collect();
        fail!(format!("{pfx}/ids-differ"), "tile_ids(): {} ids, model {}; missing {:?} extra {:?}", ids.len(), want.len(), missing, extra);
    }
    ensure!(a.count() == model.len(), format!("{pfx}/count-differs"), "num_tiles() = {} but the model has {}", a.count(), model.len());
    for id in probe_ids(model, seed) {
        let got = guarded("get_tile_by_id", || a.get(id))?.map_err(|e| Fail::new(format!("{pfx}/get-err"), format!("get_tile_by_id({id}): {e}")))?;
        let want = &model[&id];
        match got {
            None => fail!(format!("{pfx}/tile-missing"), "get_tile_by_id({id}) = None, expected {} bytes", want.len()),
            Some(b) => {
                if &b != want {
                    let adv = l.map_or(false, |l| l.has_adversarial());
                    let cls = if adv { "hash-adversarial" } else { "other" };
                    let at = b.iter().zip(want).position(|(x, y)| x != y).unwrap_or(b.len().min(want.len()));
                    fail!(format!("{pfx}/tile-bytes-differ/{cls}"), "tile {id}: got {} bytes, want {} bytes, first difference at {at}", b.len(), want.len());
                }
            }
        }
    }
    // lookup by coordinates, via the reference id -> zxy
    for id in probe_ids(model, seed).into_iter().take(64) {
        if let Some((z, x, y)) = hilbert::id_to_zxy(id) {
            let got = guarded("get_tile", || a.get_zxy(x, y, z))?.map_err(|e| Fail::new(format!("{pfx}/get-err"), format!("get_tile({x},{y},{z}): {e}")))?;
            ensure!(got.as_ref() == Some(&model[&id]), format!("{pfx}/get_tile-zxy-differs"), "get_tile({x},{y},{z}) (id {id}) does not return the tile's bytes");
        }
    }
    for id in non_members(model, seed) {
        let got = guarded("get_tile_by_id", || a.get(id))?.map_err(|e| Fail::new(format!("{pfx}/get-err"), format!("get_tile_by_id({id}): {e}")))?;
        ensure!(got.is_none(), format!("{pfx}/nonmember-found"), "get_tile_by_id({id}) returned {} bytes for an id that was never added", got.map_or(0, |b| b.len()));
    }
    Ok(())
}

pub fn float_class(l: &Logical) -> &'static str {
    if l.meta.has_full_float() {
        "full-float"
    } else {
        "other"
    }
}

/// Compare metadata and settings of an opened archive with the recipe.
pub fn compare_fields(a: &Arch, l: &Logical, pfx: &str) -> Result<(), Fail> {
    let f = a.fields();
    let want = l.fields();
    if f.meta != want.meta {
        fail!(
            format!("{pfx}/metadata-differs/{}", float_class(l)),
            "metadata after round trip differs: got {} want {}",
            serde_json::to_string(&f.meta).unwrap_or_default().chars().take(300).collect::<String>(),
            serde_json::to_string(&want.meta).unwrap_or_default().chars().take(300).collect::<String>()
        );
    }
    ensure!(f.tile_type == want.tile_type, format!("{pfx}/setting-differs/tile_type"), "tile type {} != {}", f.tile_type, want.tile_type);
    ensure!(f.tile_comp == want.tile_comp, format!("{pfx}/setting-differs/tile_compression"), "tile compression {} != {}", f.tile_comp, want.tile_comp);
    ensure!(f.internal == want.internal, format!("{pfx}/setting-differs/internal_compression"), "internal compression {} != {}", f.internal, want.internal);
    ensure!(f.min_zoom == want.min_zoom, format!("{pfx}/setting-differs/min_zoom"), "min zoom {} != {}", f.min_zoom, want.min_zoom);
    ensure!(f.max_zoom == want.max_zoom, format!("{pfx}/setting-differs/max_zoom"), "max zoom {} != {}", f.max_zoom, want.max_zoom);
    ensure!(f.center_zoom == want.center_zoom, format!("{pfx}/setting-differs/center_zoom"), "center zoom {} != {}", f.center_zoom, want.center_zoom);
    let names = ["min_longitude", "min_latitude", "max_longitude", "max_latitude", "center_longitude", "center_latitude"];
    for k in 0..6 {
        let v = want.coords[k];
        let r = f.coords[k];
        let ok = header::nearest_e7(v).iter().any(|n| (r - (*n as f64) * 1e-7).abs() <= 1e-12);
        if !ok {
            fail!(
                format!("{pfx}/coordinate-not-nearest"),
                "{} set to {:e} came back as {:e}; nearest multiple(s) of 1e-7: {:?}e-7",
                names[k],
                v,
                r,
                header::nearest_e7(v)
            );
        }
    }
    Ok(())
}

pub fn meta_for(l: &Logical, bytes_len: usize, spilled: bool) -> Meta {
    let nt = l.tiles.len() >= 2 && (l.has_dup() || l.has_near_dup() || !l.meta.is_empty_object() || spilled);
    let n = l.tiles.len();
    Meta::new(nt)
        .label(n == 0, "tiles-0")
        .label(n == 1, "tiles-1")
        .label((2..=20).contains(&n), "tiles-2..20")
        .label((21..=1000).contains(&n), "tiles-21..1000")
        .label(n > 1000, "tiles>1000")
        .label(l.has_dup(), "dup-content")
        .label(l.has_near_dup(), "near-dup-content")
        .label(l.has_adversarial(), "hash-adversarial-content")
        .label(spilled, "leaf-spill")
        .label(!l.readds.is_empty(), "re-added-identical")
        .label(!l.wrong_first.is_empty(), "overwritten-content")
        .label(l.meta.has_full_float(), "meta-full-float")
        .label(l.meta.has_short_float(), "meta-short-float")
        .label(!l.meta.is_empty_object(), "meta-nonempty")
        .label(true, codec_label(l.settings.internal))
        .label(bytes_len > 0, "written")
}

pub fn spilled(bytes: &[u8]) -> bool {
    crate::spec::SHeader::decode(bytes).map_or(false, |h| h.leaf_len > 0)
}

fn check(c: &RtCase) -> CaseResult {
    let l = &c.l;
    let bytes = write_logical(l, c.asyncw)?;
    let ok = if c.open_async { "async" } else { "sync" };
    let mut a = guarded("from_bytes", || if c.open_async { Arch::open_async(bytes.clone()) } else { Arch::open_sync(bytes.clone()) })?
        .map_err(|e| Fail::new(format!("C01/open-err/{ok}"), format!("opening the written archive failed: {e}")))?;
    let model = l.map();
    compare_tiles(&mut a, &model, Some(l), u64::from(l.order_seed), "C01")?;
    compare_fields(&a, l, "C01")?;
    Ok(meta_for(l, bytes.len(), spilled(&bytes)).label(c.asyncw, "writer-async").label(!c.asyncw, "writer-sync").label(c.open_async, "reader-async"))
}

pub fn gen_for(ctx: &Ctx, max_tiles: usize) -> Gen {
    Gen {
        max_tiles,
        allow_big: true,
        // the colliding family is generated for C01 only (C04 has its own probe); other properties never see it
        allow_adv: ctx.prop == "C01" && !ctx.excluded("C01/tile-bytes-differ/hash-adversarial"),
        full_floats: !ctx.excluded(&format!("{}/metadata-differs/full-float", ctx.prop)),
    }
}

pub fn strategy(g: Gen) -> impl Strategy<Value = RtCase> {
    (logical::logical(g), any::<bool>(), prop_oneof![3 => Just(false), 1 => Just(true)]).prop_map(|(l, asyncw, open_async)| RtCase { l, asyncw, open_async })
}

pub fn large_cases(ctx: &Ctx) -> Vec<RtCase> {
    let n = ctx.tier.pick(8, 64);
    let mut v: Vec<RtCase> = (0..n)
        .map(|i| {
            let internal = 1 + (i % 4) as u8;
            let size = if internal == 3 { 12_000 + 500 * i } else { 20_000 + 5_000 * (i % 9) };
            RtCase { l: logical::large(size, ctx.seed.wrapping_mul(1000) + i as u64, internal), asyncw: i % 3 == 1, open_async: i % 5 == 2 }
        })
        .collect();
    // dense archives: long but compressible directories -> a single root directory with far more than 16384
    // entries (codecs); uncompressed: root size steered onto the 16 KiB budget edge (2 + 4n bytes)
    for (k, n) in [20_000usize, 33_000, 50_000].iter().enumerate() {
        for internal in [2u8, 3, 4] {
            if ctx.tier == crate::engine::Tier::Quick && (k + usize::from(internal)) % 2 == 1 {
                continue;
            }
            v.push(RtCase { l: logical::dense(*n, ctx.seed + k as u64, internal), asyncw: (k + usize::from(internal)) % 2 == 0, open_async: k == 1 });
        }
    }
    // more than 2^16 tiles / entries in one archive, and tiles around 2^20 (thorough: 2^24) bytes
    for (k, n) in [70_000usize, 140_000].iter().enumerate() {
        if k == 1 && ctx.tier == crate::engine::Tier::Quick {
            continue;
        }
        v.push(RtCase { l: logical::large(*n, ctx.seed + 77 + k as u64, 2 + (k % 3) as u8), asyncw: k == 1, open_async: false });
    }
    // (both tiers: a content of 2^24+1 bytes shared by two ids costs a fraction of a second)
    for (k, big) in [1_048_577u32, 16_777_217].iter().enumerate() {
        let mut l = logical::large(40, ctx.seed + 90 + k as u64, 1 + (k % 4) as u8);
        l.pool[0] = crate::model::ContentSpec { kind: 0, len: *big, seed: 3 };
        l.tiles[5].1 = 0;
        l.tiles[20].1 = 0;
        v.push(RtCase { l, asyncw: k == 0, open_async: k == 0 });
    }
    // uncompressed directories of 6-8 bytes per entry: a sweep of entry counts across the point where the root
    // stops fitting (around 2000-2700 entries here, 4064 for the 4-byte entries below)
    for n in (1500usize..=4100).step_by(100) {
        v.push(RtCase { l: logical::large(n, ctx.seed + n as u64, 1), asyncw: n % 200 == 0, open_async: false });
    }
    // (4097, 8197, 12 300: one, five and twelve entries beyond a multiple of the default leaf size of 4096)
    for n in [4063usize, 4064, 4065, 4080, 4095, 4096, 4097, 8197, 12_300] {
        v.push(RtCase { l: logical::dense(n, ctx.seed + n as u64, 1), asyncw: n % 2 == 0, open_async: false });
    }
    v
}

pub fn run(ctx: &Ctx) {
    ctx.rec.set_rule(
        "proptest recipes: tile map (0, 1, 2-20, up to 1000 tiles; ids dense/clustered/zoom-block edges/uniform over the valid domain; contents from a pool with exact \
         duplicates, near-duplicates sharing length/prefix, 1 B .. ~100 KiB, hash-adversarial family) x JSON-object metadata (depth <= 3, unicode keys, short and full floats) \
         x settings (6 tile types, 5 tile compressions, 4 internal compressions, zooms over u8, coordinates incl. half-step ties +-1ulp) x sync/async writer x sync/async open; \
         plus fixed-seed large archives (12k-60k tiles) that force leaf spill. Oracle: BTreeMap model; coordinates by exact-rational nearest-multiple rule. \
         Non-trivial: >= 2 tiles and (duplicate or near-duplicate content, non-empty metadata, or leaf spill); distinct by digest of the recipe.",
    );
    ctx.rec.assume("coordinate rule accepts either neighbour when v*1e7 lies within one f64 rounding error (2^-52 relative) of a half-step tie");
    let g = gen_for(ctx, ctx.tier.pick(300, 1000));
    if !g.allow_adv {
        ctx.rec.exclude("hash-adversarial content family switched off in the main search (open known finding); exercised by its own sub-check", 1);
    }
    if !g.full_floats {
        ctx.rec.exclude("full-precision float metadata switched off in the main search (open known finding); exercised by its own sub-check", 1);
    }
    run_proptest(ctx, "roundtrip", PtCfg::new(ctx.lanes, ctx.tier.pick(1000, 60_000)), || strategy(g), check);
    let big = large_cases(ctx);
    run_list(ctx, "roundtrip-large", &big, check);
    probes(ctx);
    for c in ["leaf-spill", "dup-content", "near-dup-content", "meta-nonempty", "internal-brotli", "internal-none", "writer-async", "reader-async", "tiles-0", "tiles-1", "re-added-identical", "overwritten-content"] {
        ctx.rec.floor(c, 5);
    }
}

/// Fixed probes for finding classes (run whether or not the class is excluded from the main search).
pub fn probes(ctx: &Ctx) {
    use crate::model::{settings::Fb, ContentSpec, J};
    let base = logical::large(3, 1, 1);
    let mut cases: Vec<RtCase> = Vec::new();
    // hash-adversarial: two different 32-byte tiles of the colliding family under adjacent ids
    for k in 0..4u32 {
        let mut l = base.clone();
        l.pool = vec![ContentSpec { kind: 7, len: 32, seed: 2 * k }, ContentSpec { kind: 7, len: 32, seed: 2 * k + 1 }];
        l.tiles = vec![(1, 0), (2, 40000)];
        l.order_seed = k;
        cases.push(RtCase { l, asyncw: k % 2 == 1, open_async: false });
    }
    // full floats in metadata
    for bits in [0x3_0735_c7a9_c1b9_f5au64, 0x3fb999999999999a, 0x7fefffffffffffff, 0x0000000000000001, 0x4340000000000001] {
        let mut l = base.clone();
        l.meta = J::O(vec![("v".into(), J::Ff(bits)), ("a".into(), J::A(vec![J::Ff(bits ^ 0x10_0000)]))]);
        cases.push(RtCase { l, asyncw: false, open_async: false });
    }
    // coordinates that truncation gets wrong
    for v in [0.000_002_1f64, -0.000_002_1, 179.999_999_95, -89.999_999_96, 1.234_567_89] {
        let mut l = base.clone();
        l.settings.coords = [Fb::of(v), Fb::of(v / 2.0), Fb::of(-v), Fb::of(-v / 2.0), Fb::of(v), Fb::of(v / 2.0)];
        cases.push(RtCase { l, asyncw: false, open_async: false });
    }
    run_list(ctx, "finding-class-probes", &cases, check);
}

pub fn replay(sub: &str, case: &Value) -> Option<CaseResult> {
    match sub {
        "roundtrip" | "roundtrip-large" | "finding-class-probes" => Some(check(&super::de(case)?)),
        _ => None,
    }
}
