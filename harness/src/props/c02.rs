//! C02 — written archives are valid PMTiles v3 as judged by an independent reader.

use super::c01::{self, RtCase};
use crate::engine::{run_list, run_proptest, CaseResult, Ctx, Fail, PtCfg};
use crate::spec::reader::{self, Limits};
use serde_json::{json, Value};
use std::collections::BTreeMap;
use std::sync::Mutex;

fn lim() -> Limits {
    Limits { max_tiles: 1 << 24, max_visits: 100_000, max_dir_bytes: 256 << 20, max_depth: 4 }
}

/// Validate bytes the writer produced against the model with the independent reader.
pub fn validate(bytes: &[u8], model: &BTreeMap<u64, Vec<u8>>, seed: u64, pfx: &str) -> Result<reader::Archive, Fail> {
    let ar = reader::parse(bytes, &lim()).map_err(|r| Fail::new(format!("{pfx}/spec-reader-rejects/{}", r.tag), format!("independent reader rejects the written archive: {}", r.msg)))?;
    let bad = reader::strict_checks(bytes, &ar);
    if let Some((tag, msg)) = bad.first() {
        fail!(format!("{pfx}/{tag}"), "{msg} ({} rule(s) broken: {:?})", bad.len(), bad.iter().map(|b| b.0).collect::<Vec<_>>());
    }
    // the directories address exactly the model's ids
    let want: Vec<u64> = model.keys().copied().collect();
    let got: Vec<u64> = ar.tiles.keys().copied().collect();
    ensure!(got == want, format!("{pfx}/addressed-ids-differ"), "directories address {} ids, model has {}", got.len(), want.len());
    // specification lookup returns the added bytes
    let h = &ar.header;
    for id in c01::probe_ids(model, seed) {
        let r = reader::lookup(bytes, h, id, &lim()).map_err(|r| Fail::new(format!("{pfx}/spec-lookup-rejects/{}", r.tag), r.msg))?;
        match r {
            None => fail!(format!("{pfx}/spec-lookup-misses"), "specification lookup does not find tile {id}"),
            Some((off, len)) => {
                let sl = bytes.get(off as usize..off as usize + len as usize).ok_or_else(|| Fail::new(format!("{pfx}/spec-lookup-outside-file"), format!("tile {id} at {off}+{len} outside file")))?;
                ensure!(sl == &model[&id][..], format!("{pfx}/spec-lookup-wrong-bytes"), "specification lookup of tile {id} returns bytes that differ from what was added");
            }
        }
    }
    for id in c01::non_members(model, seed).into_iter().take(200) {
        let r = reader::lookup(bytes, h, id, &lim()).map_err(|r| Fail::new(format!("{pfx}/spec-lookup-rejects/{}", r.tag), r.msg))?;
        ensure!(r.is_none(), format!("{pfx}/spec-lookup-finds-nonmember"), "specification lookup finds id {id}, which was never added");
    }
    Ok(ar)
}

/// files queued for the second (Python) reader: (name, bytes, expected id -> fnv hash of content)
static PY_QUEUE: Mutex<Vec<(Vec<u8>, Vec<(u64, u64, u32)>)>> = Mutex::new(Vec::new());

pub fn fnv(b: &[u8]) -> u64 {
    crate::engine::record::fxhash(b)
}

fn check(c: &RtCase, py_budget: usize) -> CaseResult {
    let l = &c.l;
    let bytes = c01::write_logical(l, c.asyncw).map_err(|f| Fail::new(f.sig.replace("C01/", "C02/"), f.msg))?;
    let model = l.map();
    let ar = validate(&bytes, &model, u64::from(l.order_seed), "C02")?;
    // header settings as stored
    let h = &ar.header;
    let s = &l.settings;
    ensure!(
        h.tile_type == s.tile_type && h.tile_comp == s.tile_comp && h.internal == s.internal && h.min_zoom == s.min_zoom && h.max_zoom == s.max_zoom && h.center_zoom == s.center_zoom,
        "C02/header-setting-differs",
        "header settings differ from what was set: {:?} vs {:?}",
        h,
        s
    );
    let want_meta = l.meta.to_value();
    if ar.metadata != want_meta && !l.meta.has_full_float() {
        fail!("C02/metadata-differs", "metadata stored in the archive differs from what was set");
    }
    if (s.internal == 1 || s.internal == 2) && bytes.len() < 400_000 {
        let mut q = PY_QUEUE.lock().unwrap();
        if q.len() < py_budget {
            q.push((bytes.clone(), model.iter().map(|(k, v)| (*k, fnv(v), v.len() as u32)).collect()));
        }
    }
    let nt = ar.tile_entries.len() >= 2 && (ar.has_leaves || ar.tile_entries.iter().any(|e| e.run > 1) || {
        let mut offs: Vec<u64> = ar.tile_entries.iter().map(|e| e.off).collect();
        offs.sort_unstable();
        offs.windows(2).any(|w| w[0] == w[1])
    });
    let mut m = c01::meta_for(l, bytes.len(), ar.has_leaves);
    m.nontrivial = nt;
    Ok(m.label(ar.tile_entries.iter().any(|e| e.run > 1), "run>1").label(c.asyncw, "writer-async").label(!c.asyncw, "writer-sync"))
}

/// Archives that are the result of an edit history on an opened (foreign or library-written) archive are
/// "archives the writer produces" too: reader-backed tiles, runs coming from the source, edits on top.
fn check_history(h: &crate::model::history::History) -> CaseResult {
    use crate::model::history;
    let mut r = history::start(h, "C02")?;
    for op in &h.ops {
        history::step(&mut r, op, "C02")?;
    }
    let a = std::mem::replace(&mut r.arch, crate::libx::Arch::new_sync());
    let bytes = crate::engine::guarded("to_writer", || a.write())?.map_err(|e| Fail::new("C02/write-err", format!("{e}")))?;
    let ar = validate(&bytes, &r.model, 5, "C02")?;
    let runs = ar.tile_entries.iter().any(|e| e.run > 1);
    Ok(crate::engine::Meta::new(ar.tile_entries.len() >= 2 && (runs || ar.has_leaves))
        .label(true, "written-after-history")
        .label(runs, "run>1")
        .label(!matches!(h.init, history::Init::Empty(_)), "reader-backed-source")
        .label(r.stats.reopens > 0, "history-with-reopen"))
}

/// Hand the queued sample to tools/pmtiles_ref.py (stdlib-only second reader) in one batch.
fn python_batch(ctx: &Ctx) {
    let q = std::mem::take(&mut *PY_QUEUE.lock().unwrap());
    if q.is_empty() {
        return;
    }
    let dir = ctx.verif_dir.join("work").join(format!("c02-py-{}", std::process::id()));
    let _ = std::fs::create_dir_all(&dir);
    let mut manifest = Vec::new();
    for (i, (bytes, exp)) in q.iter().enumerate() {
        let p = dir.join(format!("{i}.pmtiles"));
        if std::fs::write(&p, bytes).is_err() {
            ctx.rec.infra("cannot write python batch file");
            return;
        }
        manifest.push(json!({"file": p, "tiles": exp.iter().map(|(id, h, n)| json!([id, format!("{h:016x}"), n])).collect::<Vec<_>>()}));
    }
    let mpath = dir.join("manifest.json");
    let _ = std::fs::write(&mpath, serde_json::to_vec(&manifest).unwrap_or_default());
    let out = std::process::Command::new("python3").arg(ctx.verif_dir.join("tools").join("pmtiles_ref.py")).arg("batch").arg(&mpath).output();
    match out {
        Err(e) => ctx.rec.infra(&format!("python3 not runnable: {e}")),
        Ok(o) => {
            let text = String::from_utf8_lossy(&o.stdout).to_string();
            let mut acc = crate::engine::record::LaneAcc::default();
            let mut seen = 0usize;
            for line in text.lines() {
                if let Some(rest) = line.strip_prefix("OK ") {
                    seen += 1;
                    acc.evals += 1;
                    acc.nontrivial_undigested += 1;
                    let _ = rest;
                } else if let Some(rest) = line.strip_prefix("FAIL ") {
                    seen += 1;
                    acc.evals += 1;
                    let idx: usize = rest.split_whitespace().next().and_then(|s| s.parse().ok()).unwrap_or(0);
                    let f = Fail::new("C02/python-reader-disagrees", format!("second (Python) reader: {rest}"));
                    ctx.rec.violation(&ctx.verif_dir, ctx.prop, "python-second-reader", &f, json!({"archive_hex": crate::engine::hex(&q[idx.min(q.len() - 1)].0)}));
                }
            }
            if seen != q.len() || !o.status.success() && seen == 0 {
                ctx.rec.infra(&format!("python batch answered {seen} of {} files; stderr: {}", q.len(), String::from_utf8_lossy(&o.stderr).chars().take(300).collect::<String>()));
            }
            ctx.rec.merge("python-second-reader", acc);
            ctx.rec.sub_done("python-second-reader", false, 0.0, "sample of written archives (internal compression none/gzip) parsed by tools/pmtiles_ref.py");
        }
    }
    let _ = std::fs::remove_dir_all(&dir);
}

pub fn run(ctx: &Ctx) {
    ctx.rec.set_rule(
        "same recipe generator as C01 (tile maps x metadata x settings x 4 internal compressions x sync/async writer, plus fixed-seed large archives that force leaf \
         directories); every produced file is parsed by harness/src/spec/reader.rs: header, section bounds and disjointness, root within 16 KiB, directories decodable and \
         canonical, ordering, ranges inside tile data, metadata an object, the three counters recomputed, clustered flag vs layout, and the specification's binary-search \
         lookup for every model id (all ids up to 2000, else boundaries + sample) and for non-members. A sample (internal none/gzip) is also parsed by a stdlib-only Python reader. \
         Non-trivial: >= 2 entries and (run length > 1, shared offset, or leaf directories); distinct by recipe digest.",
    );
    ctx.rec.assume("independent reader = harness/src/spec/reader.rs + tools/pmtiles_ref.py; codecs as decompressors");
    let g = c01::gen_for(ctx, ctx.tier.pick(300, 1000));
    let pyb = ctx.tier.pick(40, 400);
    run_proptest(ctx, "validate-written", PtCfg::new(ctx.lanes, ctx.tier.pick(600, 8000)), || c01::strategy(g), |c| check(c, pyb));
    let big = c01::large_cases(ctx);
    run_list(ctx, "validate-written-large", &big, |c| check(c, pyb));
    let (mo, mi) = ctx.tier.pick((40, 60), (150, 400));
    run_proptest(ctx, "validate-written-after-history", PtCfg::new(ctx.lanes, ctx.tier.pick(200, 6000)), || crate::model::history::history(mo, mi, 150), check_history);
    python_batch(ctx);
    for c in ["leaf-spill", "run>1", "dup-content", "internal-brotli", "internal-zstd", "writer-async", "written-after-history", "reader-backed-source"] {
        ctx.rec.floor(c, 5);
    }
}

pub fn replay(sub: &str, case: &Value) -> Option<CaseResult> {
    match sub {
        "validate-written" | "validate-written-large" => Some(check(&super::de(case)?, 0)),
        "validate-written-after-history" => Some(check_history(&super::de(case)?)),
        "python-second-reader" => {
            let bytes = crate::engine::unhex(case.get("archive_hex")?.as_str()?);
            Some(match reader::parse(&bytes, &lim()) {
                Ok(_) => Ok(crate::engine::Meta::new(true)),
                Err(r) => Err(Fail::new("C02/spec-reader-rejects", r.msg)),
            })
        }
        _ => None,
    }
}
