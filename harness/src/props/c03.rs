//! C03 — spec-valid archives from other writers open to exactly the content they address.

use crate::engine::{guarded, run_list, run_proptest, CaseResult, Ctx, Fail, Meta, PtCfg};
use crate::libx::Arch;
use crate::model::layout::{self, LGen};
use crate::spec::reader::{self, Limits};
use crate::spec::writer::{self, Built, Layout};
use crate::spec::{codec, SEntry};
use futures::executor::block_on;
use serde::{Deserialize, Serialize};
use serde_json::Value;
use std::collections::BTreeMap;

#[derive(Clone, Debug, Serialize, Deserialize)]
pub struct Case {
    pub l: Layout,
    /// 0 from_bytes, 1 from_reader (cursor over Vec), 2 from_async_reader
    pub open: u8,
}

fn lim() -> Limits {
    Limits { max_tiles: 1 << 24, max_visits: 100_000, max_dir_bytes: 256 << 20, max_depth: 4 }
}

/// The harness's own reader must agree with the layout description (guards the oracle).
pub fn self_check(b: &Built) -> Result<(), Fail> {
    let ar = reader::parse(&b.bytes, &lim()).map_err(|r| Fail::new("C03/INFRA/harness-self-check", format!("spec reader rejects the spec writer's output: {} {}", r.tag, r.msg)))?;
    let got: BTreeMap<u64, (u64, u32)> = ar.tiles.iter().map(|(k, (o, l))| (*k, (b.header.data_off + o, *l))).collect();
    ensure!(got == b.expected, "C03/INFRA/harness-self-check", "spec reader and spec writer disagree about the addressed tiles");
    Ok(())
}

pub fn open(bytes: &[u8], how: u8) -> Result<std::io::Result<Arch>, Fail> {
    match how % 3 {
        0 => guarded("from_bytes", || Arch::open_sync(bytes.to_vec())),
        1 => guarded("from_reader", || pmtiles2::PMTiles::from_reader(std::io::Cursor::new(bytes.to_vec())).map(Arch::Bytes)),
        _ => guarded("from_async_reader", || Arch::open_async(bytes.to_vec())),
    }
}

pub fn check_opened(a: &mut Arch, b: &Built, pfx: &str) -> Result<(), Fail> {
    let ids = a.ids();
    let want: Vec<u64> = b.expected.keys().copied().collect();
    if ids != want {
        let missing: Vec<u64> = want.iter().filter(|i| ids.binary_search(i).is_err()).take(5).copied().collect();
        let extra: Vec<u64> = ids.iter().filter(|i| !b.expected.contains_key(i)).take(5).copied().collect();
        fail!(format!("{pfx}/ids-differ"), "opened archive lists {} ids, directories address {}; missing {:?} extra {:?}", ids.len(), want.len(), missing, extra);
    }
    ensure!(a.count() == want.len(), format!("{pfx}/count-differs"), "num_tiles() = {} vs {}", a.count(), want.len());
    // probe: all ids when few, else boundaries of every entry + stride
    let probe: Vec<u64> = if want.len() <= 3000 {
        want.clone()
    } else {
        let mut p: Vec<u64> = b.steer.clone();
        p.extend(want.iter().step_by(want.len() / 1500 + 1));
        p.sort_unstable();
        p.dedup();
        p.retain(|i| b.expected.contains_key(i));
        p
    };
    let mut budget: i64 = 24 << 20; // bytes fetched and compared per archive (a 300 KB tile with a run of 1000 ids...)
    for id in probe {
        let (off, len) = b.expected[&id];
        if budget < 0 && b.steer.binary_search(&id).is_err() {
            continue;
        }
        budget -= i64::from(len);
        let got = guarded("get_tile_by_id", || a.get(id))?.map_err(|e| Fail::new(format!("{pfx}/get-err"), format!("get_tile_by_id({id}): {e}")))?;
        let want = &b.bytes[off as usize..off as usize + len as usize];
        match got {
            None => fail!(format!("{pfx}/tile-missing"), "get_tile_by_id({id}) = None"),
            Some(g) => ensure!(g == want, format!("{pfx}/tile-bytes-differ"), "tile {id}: bytes differ from file[{off}..+{len}] (got {} bytes)", g.len()),
        }
    }
    for q in b.steer.iter().flat_map(|s| [s.saturating_sub(1), s + 1]).chain([0, u64::MAX]) {
        if !b.expected.contains_key(&q) {
            let got = guarded("get_tile_by_id", || a.get(q))?.map_err(|e| Fail::new(format!("{pfx}/get-err"), format!("get_tile_by_id({q}): {e}")))?;
            ensure!(got.is_none(), format!("{pfx}/nonmember-found"), "id {q} is not addressed but get_tile_by_id returns bytes");
        }
    }
    // header settings and metadata as stored
    let f = a.fields();
    let h = &b.header;
    ensure!(Value::Object(f.meta.clone()) == b.metadata, format!("{pfx}/metadata-differs"), "metadata differs from what the archive stores");
    ensure!(
        f.tile_type == h.tile_type && f.tile_comp == h.tile_comp && f.internal == h.internal && f.min_zoom == h.min_zoom && f.max_zoom == h.max_zoom && f.center_zoom == h.center_zoom,
        format!("{pfx}/setting-differs"),
        "settings differ from the header: {:?}",
        f
    );
    let stored = [h.min_lon, h.min_lat, h.max_lon, h.max_lat, h.center_lon, h.center_lat];
    for k in 0..6 {
        let want = f64::from(stored[k]) * 1e-7;
        ensure!((f.coords[k] - want).abs() <= 1e-12 + want.abs() * 1e-15, format!("{pfx}/coordinate-differs"), "coordinate {k}: stored {} read as {:e}", stored[k], f.coords[k]);
    }
    Ok(())
}

/// util::read_directories (sync + async) against the expected mapping.
pub fn check_read_directories(b: &Built, pfx: &str) -> Result<(), Fail> {
    let h = &b.header;
    let want: BTreeMap<u64, (u64, u32)> = b.expected.iter().map(|(k, (o, l))| (*k, (o - h.data_off, *l))).collect();
    for asyncr in [false, true] {
        let k = if asyncr { "async" } else { "sync" };
        let got = if asyncr {
            guarded("read_directories_async", || {
                let mut r = futures::io::Cursor::new(&b.bytes[..]);
                block_on(pmtiles2::util::read_directories_async(&mut r, codec::to_lib(h.internal), (h.root_off, h.root_len), h.leaf_off, ..))
            })?
        } else {
            guarded("read_directories", || {
                let mut r = std::io::Cursor::new(&b.bytes[..]);
                pmtiles2::util::read_directories(&mut r, codec::to_lib(h.internal), (h.root_off, h.root_len), h.leaf_off, ..)
            })?
        }
        .map_err(|e| Fail::new(format!("{pfx}/read_directories-err/{k}"), format!("{e}")))?;
        let got: BTreeMap<u64, (u64, u32)> = got.into_iter().map(|(k, v)| (k, (v.offset, v.length))).collect();
        if got != want {
            let diff = want.iter().find(|(k, v)| got.get(k) != Some(v)).map(|(k, v)| (*k, *v, got.get(k).copied()));
            fail!(format!("{pfx}/read_directories-differs/{k}"), "{} entries vs {} expected; first difference {:?}", got.len(), want.len(), diff);
        }
    }
    Ok(())
}

fn ref_find(es: &[SEntry], q: u64) -> Option<SEntry> {
    es.iter().copied().find(|e| e.run > 0 && q >= e.id && q - e.id < u64::from(e.run))
}

/// Directory::from_bytes on every single directory, then find_entry_for_tile_id.
pub fn check_single_dirs(b: &Built, pfx: &str) -> Result<(), Fail> {
    for d in b.dirs.iter().take(40) {
        let dir = guarded("Directory::from_bytes", || pmtiles2::Directory::from_bytes(&d.blob, codec::to_lib(b.header.internal)))?
            .map_err(|e| Fail::new(format!("{pfx}/directory-parse-err"), format!("{e}")))?;
        let got = super::c05::from_lib(&dir);
        ensure!(got == d.entries, format!("{pfx}/directory-entries-differ"), "single directory at {} decodes to different entries", d.abs_off);
        let mut qs: Vec<u64> = vec![0, u64::MAX, crate::spec::hilbert::domain_end()];
        for e in d.entries.iter().take(60) {
            let last = e.id + u64::from(e.run.max(1)) - 1;
            qs.extend([e.id.saturating_sub(1), e.id, e.id + 1, last, last + 1, e.id + u64::from(e.run) / 2]);
        }
        for q in qs {
            let got = guarded("find_entry_for_tile_id", || dir.find_entry_for_tile_id(q).copied())?;
            let got = got.map(|e| SEntry { id: e.tile_id, off: e.offset, len: e.length, run: e.run_length });
            let want = ref_find(&d.entries, q);
            if got != want {
                let cls = if got.map_or(false, |e| e.run == 0) { "returns-leaf-pointer" } else { "wrong-entry" };
                fail!(format!("{pfx}/find_entry/{cls}"), "find_entry_for_tile_id({q}) = {:?}, the entry whose run covers it is {:?}", got, want);
            }
        }
    }
    Ok(())
}

fn check(c: &Case) -> CaseResult {
    let b = writer::build(&c.l);
    self_check(&b)?;
    let how = ["from_bytes", "from_reader", "from_async_reader"][usize::from(c.open % 3)];
    let mut a = open(&b.bytes, c.open)?.map_err(|e| Fail::new(format!("C03/open-err/{how}"), format!("a spec-valid archive is rejected: {e}")))?;
    check_opened(&mut a, &b, "C03")?;
    check_read_directories(&b, "C03")?;
    check_single_dirs(&b, "C03")?;
    // every third layout is followed, on the same thread, by a sibling archive that differs only in its tile ids
    // (all shifted by one) and so has the same section offsets, lengths and counters: nothing remembered from the
    // first archive may answer for the second
    let mut sibling = false;
    if c.l.first_id % 3 == 0 && !c.l.to_end && b.expected.len() <= 3000 {
        let mut l2 = c.l.clone();
        l2.first_id += 1;
        let b2 = writer::build(&l2);
        if b2.header.root_len == b.header.root_len && b2.header.leaf_len == b.header.leaf_len && b2.bytes.len() == b.bytes.len() {
            let mut a2 = open(&b2.bytes, c.open)?.map_err(|e| Fail::new(format!("C03/open-err/{how}"), format!("sibling archive (ids shifted by one) is rejected: {e}")))?;
            check_opened(&mut a2, &b2, "C03").map_err(|f| Fail::new(format!("{}/after-a-sibling-archive", f.sig), format!("second of two archives with identical headers but other tile ids, opened one after the other: {}", f.msg)))?;
            sibling = true;
        }
    }
    let f = &b.facts;
    let nt = f.depth >= 2 || f.has_run || f.shared_offset || f.non_monotonic || f.permuted || f.gapped || f.non_eliding;
    Ok(Meta::new(nt)
        .label(f.depth == 1, "depth-1")
        .label(f.depth == 2, "depth-2")
        .label(f.depth == 3, "depth-3")
        .label(f.has_run, "run>1")
        .label(f.shared_offset, "shared-offset")
        .label(f.non_monotonic, "non-monotonic-offset")
        .label(f.permuted, "sections-permuted")
        .label(f.gapped, "gaps")
        .label(f.non_eliding, "non-eliding")
        .label(f.empty_meta, "metadata-length-0")
        .label(c.l.zero_counters != 0, "counters-unknown-0")
        .label(f.prefix_overlap, "same-offset-different-length")
        .label(f.mixed, "tile-entries-and-leaf-pointers-in-one-directory")
        .label(sibling, "followed-by-a-sibling-with-an-identical-header")
        .label(b.expected.contains_key(&(crate::spec::hilbert::domain_end() - 1)), "addresses-last-tile-id")
        .label(true, super::c01::codec_label(c.l.internal))
        .label(c.open % 3 == 2, "open-async"))
}

// ---- fixtures ---------------------------------------------------------------------------

#[derive(Clone, Debug, Serialize, Deserialize)]
pub struct Fixture {
    pub path: String,
}

fn check_fixture(fx: &Fixture) -> CaseResult {
    let bytes = std::fs::read(&fx.path).map_err(|e| Fail::new("C03/INFRA/fixture", format!("cannot read fixture {}: {e}", fx.path)))?;
    check_bytes(&bytes, &fx.path)?;
    Ok(Meta::new(true).label(true, "fixture"))
}

/// A complete archive given as bytes (fixture or hand-assembled): the library's directory walk and opening
/// against the independent reader. A declared tile-data section that is not in the file is tolerated (only the
/// directory mapping is compared then).
fn check_bytes(bytes: &[u8], name: &str) -> Result<(), Fail> {
    let bytes = bytes.to_vec();
    let fx = Fixture { path: name.to_string() };
    let h = crate::spec::SHeader::decode(&bytes).map_err(|e| Fail::new("C03/harness", e))?;
    // fixture 3 ("without_data") declares a tile-data section that is not in the file: only the
    // directory mapping is compared there.
    let has_data = h.data_off.saturating_add(h.data_len) <= bytes.len() as u64;
    let mut padded = bytes.clone();
    if !has_data {
        // the independent reader insists on sections inside the file; give it a virtual zero tail
        let need = (h.data_off + h.data_len).min(h.data_off + (64 << 20));
        if need as usize > padded.len() && need < (1 << 31) {
            padded.resize(need as usize, 0);
        }
    }
    let ar = reader::parse(&padded, &lim()).map_err(|r| Fail::new("C03/harness", format!("spec reader rejects fixture: {} {}", r.tag, r.msg)));
    let want: BTreeMap<u64, (u64, u32)> = match ar {
        Ok(ar) => ar.tiles,
        Err(e) => {
            if has_data {
                return Err(e);
            }
            // tile ranges beyond the virtual tail: walk directories without the data-bounds rule
            let mut hh = h.clone();
            hh.data_len = u64::MAX / 2;
            let mut p2 = bytes.clone();
            p2[..127].copy_from_slice(&hh.encode());
            // parse() checks the section against the file: bypass by giving data_off 0 / len 0 semantic
            let mut tiles = BTreeMap::new();
            walk_dirs_only(&bytes, &h, h.root_off, h.root_len, 0, &mut tiles)?;
            tiles
        }
    };
    let mut r = std::io::Cursor::new(&bytes[..]);
    let got = guarded("read_directories", || pmtiles2::util::read_directories(&mut r, codec::to_lib(h.internal), (h.root_off, h.root_len), h.leaf_off, ..))?
        .map_err(|e| Fail::new("C03/read_directories-err/sync", format!("{e}")))?;
    let got: BTreeMap<u64, (u64, u32)> = got.into_iter().map(|(k, v)| (k, (v.offset, v.length))).collect();
    ensure!(got == want, "C03/read_directories-differs/sync", "fixture {}: {} entries vs {} from the independent reader", fx.path, got.len(), want.len());
    if has_data {
        let mut a = open(&bytes, 0)?.map_err(|e| Fail::new("C03/open-err/from_bytes", format!("fixture rejected: {e}")))?;
        let ids = a.ids();
        ensure!(ids == want.keys().copied().collect::<Vec<_>>(), "C03/ids-differ", "fixture {}: id listing differs", fx.path);
        for (id, (off, len)) in want.iter().step_by(want.len() / 400 + 1) {
            let g = guarded("get_tile_by_id", || a.get(*id))?.map_err(|e| Fail::new("C03/get-err", format!("{e}")))?;
            let o = (h.data_off + off) as usize;
            ensure!(g.as_deref() == Some(&bytes[o..o + *len as usize]), "C03/tile-bytes-differ", "fixture {}: tile {id} bytes differ", fx.path);
        }
    } else {
        // the archive still has to open (tile data is not touched by opening) and list the same ids
        for how in 0..3u8 {
            let a = open(&bytes, how)?.map_err(|e| Fail::new(format!("C03/open-err/{}", ["from_bytes", "from_reader", "from_async_reader"][usize::from(how)]), format!("{}: a spec-valid archive is rejected: {e}", fx.path)))?;
            ensure!(a.ids() == want.keys().copied().collect::<Vec<_>>(), "C03/ids-differ", "{}: id listing differs", fx.path);
        }
        let mut r = futures::io::Cursor::new(&bytes[..]);
        let got = guarded("read_directories_async", || block_on(pmtiles2::util::read_directories_async(&mut r, codec::to_lib(h.internal), (h.root_off, h.root_len), h.leaf_off, ..)))?
            .map_err(|e| Fail::new("C03/read_directories-err/async", format!("{e}")))?;
        let got: BTreeMap<u64, (u64, u32)> = got.into_iter().map(|(k, v)| (k, (v.offset, v.length))).collect();
        ensure!(got == want, "C03/read_directories-differs/async", "{}: {} entries vs {} from the independent reader", fx.path, got.len(), want.len());
    }
    Ok(())
}

// ---- leaves whose compressed size sits right behind a decoder's buffer boundary --------------------------

/// Two or three leaf directories stored back to back; the first one is steered so that its compressed size is
/// `k * buf + rem` bytes, `buf` being the input-buffer size of one of the decoders in use (32 KiB flate2, 4 KiB
/// brotli, 128 KiB + 3 zstd, 8 KiB for the async adapters) and `rem` small: a reader that infers where it stands
/// from what its decoder has consumed, instead of seeking to every directory, ends up a few bytes off.
#[derive(Clone, Debug, Serialize, Deserialize)]
pub struct Steered {
    pub codec: u8,
    pub buf: u32,
    pub rem: u8,
    pub seed: u64,
}

fn steered_archive(c: &Steered) -> Option<Vec<u8>> {
    use crate::spec::directory;
    let p = codec::Params::default();
    let buf = c.buf as usize;
    let want = |l: usize| l > buf && l % buf == usize::from(c.rem);
    // grow the first leaf until its blob passes a multiple of the buffer size, then nudge its last entry
    let mut n = buf / 10 + 1;
    let mut es = super::c06::entropy_entries(c.seed, n);
    let mut blob = codec::compress(c.codec, &directory::encode(&es, true), p);
    let mut guard = 0;
    while blob.len() <= buf + usize::from(c.rem) && guard < 4000 {
        n += ((buf + usize::from(c.rem) + 12 - blob.len()) / 12).max(1);
        es = super::c06::entropy_entries(c.seed, n);
        blob = codec::compress(c.codec, &directory::encode(&es, true), p);
        guard += 1;
    }
    let mut r = crate::engine::Sm(c.seed ^ 0x57ee);
    let mut rounds = 0;
    'search: while !want(blob.len()) && rounds < 300 {
        rounds += 1;
        // the last entry's offset and length fields are free parameters: their varint widths move the size in
        // single-byte steps (exactly so without a codec, nearly so with one)
        let last = es.len() - 1;
        for osh in [6u32, 13, 20, 27, 34, 41, 48, 55] {
            for lsh in [0u32, 7, 14, 21] {
                es[last].off = (1u64 << osh) + r.below(1 << osh.min(20));
                es[last].len = (1u32 << lsh) + r.below(1 << lsh.min(6)) as u32;
                blob = codec::compress(c.codec, &directory::encode(&es, true), p);
                if want(blob.len()) {
                    break 'search;
                }
            }
        }
        // not reachable with this entry count: one entry more or less
        let m = blob.len() % buf;
        if blob.len() > buf && m > usize::from(c.rem) && m < buf / 2 {
            es.pop();
        } else {
            let extra = super::c06::entropy_entries(c.seed ^ rounds, 1)[0];
            let l = es[es.len() - 1];
            es.push(SEntry { id: l.id + 2 + r.below(50), ..extra });
        }
        blob = codec::compress(c.codec, &directory::encode(&es, true), p);
    }
    if !want(blob.len()) {
        return None;
    }
    // a second and third, small leaf directly behind it
    let last_id = es.last()?.id;
    let leaf1: Vec<SEntry> = (0..5u64).map(|k| SEntry { id: last_id + 10 + 3 * k, off: 1000 * k, len: 100 + k as u32, run: 1 + (k % 2) as u32 }).collect();
    let leaf2: Vec<SEntry> = (0..3u64).map(|k| SEntry { id: last_id + 1000 + k * 7, off: 50_000 + 10 * k, len: 9, run: 1 }).collect();
    let b1 = codec::compress(c.codec, &directory::encode(&leaf1, true), p);
    let b2 = codec::compress(c.codec, &directory::encode(&leaf2, true), p);
    let root = vec![
        SEntry { id: es[0].id, off: 0, len: blob.len() as u32, run: 0 },
        SEntry { id: leaf1[0].id, off: blob.len() as u64, len: b1.len() as u32, run: 0 },
        SEntry { id: leaf2[0].id, off: (blob.len() + b1.len()) as u64, len: b2.len() as u32, run: 0 },
    ];
    let rootb = codec::compress(c.codec, &directory::encode(&root, true), p);
    let meta = codec::compress(c.codec, b"{}", p);
    let mut out = vec![0u8; 127];
    out.extend_from_slice(&rootb);
    let meta_off = out.len() as u64;
    out.extend_from_slice(&meta);
    let leaf_off = out.len() as u64;
    out.extend_from_slice(&blob);
    out.extend_from_slice(&b1);
    out.extend_from_slice(&b2);
    let data_off = out.len() as u64;
    out.extend_from_slice(&[7u8; 64]);
    let n_addr: u64 = es.iter().chain(&leaf1).chain(&leaf2).map(|e| u64::from(e.run)).sum();
    let h = crate::spec::SHeader {
        root_off: 127,
        root_len: rootb.len() as u64,
        meta_off,
        meta_len: meta.len() as u64,
        leaf_off,
        leaf_len: (blob.len() + b1.len() + b2.len()) as u64,
        data_off,
        data_len: 1 << 36,
        n_addressed: n_addr,
        n_entries: (es.len() + leaf1.len() + leaf2.len()) as u64,
        n_contents: (es.len() + leaf1.len() + leaf2.len()) as u64,
        clustered: 0,
        internal: c.codec,
        tile_comp: 1,
        tile_type: 1,
        min_zoom: 0,
        max_zoom: 20,
        min_lon: 0,
        min_lat: 0,
        max_lon: 0,
        max_lat: 0,
        center_zoom: 0,
        center_lon: 0,
        center_lat: 0,
    };
    out[..127].copy_from_slice(&h.encode());
    Some(out)
}

fn check_steered(c: &Steered) -> CaseResult {
    let Some(bytes) = steered_archive(c) else {
        return Ok(Meta::new(false).label(true, "steering-gave-up"));
    };
    check_bytes(&bytes, &format!("steered leaf ({}; first leaf = k * {} + {} bytes)", codec::name(c.codec), c.buf, c.rem))?;
    Ok(Meta::new(true).label(true, "leaf-ends-just-past-a-decoder-buffer-boundary").label(true, super::c01::codec_label(c.codec)))
}

fn walk_dirs_only(bytes: &[u8], h: &crate::spec::SHeader, off: u64, len: u64, depth: u32, tiles: &mut BTreeMap<u64, (u64, u32)>) -> Result<(), Fail> {
    let d = reader::read_dir(bytes, off, len, h.internal, depth, &lim()).map_err(|r| Fail::new("C03/harness", format!("{} {}", r.tag, r.msg)))?;
    for e in &d.entries {
        if e.run == 0 {
            ensure!(depth < 4, "C03/harness", "fixture too deep");
            walk_dirs_only(bytes, h, h.leaf_off + e.off, u64::from(e.len), depth + 1, tiles)?;
        } else {
            for k in 0..u64::from(e.run) {
                tiles.insert(e.id + k, (e.off, e.len));
            }
        }
    }
    Ok(())
}

pub fn fixtures() -> Vec<Fixture> {
    let dir = std::env::var("VERIF_REPO").unwrap_or_else(|_| "/repo".into());
    let mut v = Vec::new();
    if let Ok(rd) = std::fs::read_dir(format!("{dir}/test")) {
        for e in rd.filter_map(Result::ok) {
            let p = e.path();
            if p.extension().map_or(false, |x| x == "pmtiles") {
                v.push(Fixture { path: p.to_string_lossy().to_string() });
            }
        }
    }
    v.sort_by(|a, b| a.path.cmp(&b.path));
    v
}

pub fn strategy(g: LGen) -> impl proptest::strategy::Strategy<Value = Case> {
    use proptest::prelude::*;
    (layout::layout(g), 0u8..3).prop_map(|(l, open)| Case { l, open })
}

pub fn run(ctx: &Ctx) {
    ctx.rec.set_rule(
        "proptest layouts fed to the independent spec writer: 24 section permutations, gaps 0-300 B, directory trees of depth 1-3 with fan-out 1-64, leaves stored shuffled \
         and with padding, run lengths 1..10^3 (rarely 10^5), deduplicated / reverse-ordered / undeduplicated / junk-separated tile data, canonical and non-eliding offsets, \
         metadata length 0 or an object, 4 internal compressions with foreign codec parameters, 0..thousands of entries; plus the three repository fixtures (Go writer). \
         Oracle: the layout description (id -> absolute offset, length), cross-checked by the independent reader. Non-trivial: depth >= 2, run > 1, shared or non-monotonic \
         offset, permuted sections or gap, or non-eliding offsets; distinct by digest of the layout.",
    );
    ctx.rec.assume("spec writer / reader = harness/src/spec/{writer,reader}.rs; they are checked against each other on every case");
    let g = LGen { max_entries: ctx.tier.pick(300, 3000), big_runs: true };
    run_proptest(ctx, "foreign-layouts", PtCfg::new(ctx.lanes, ctx.tier.pick(400, 6000)), || strategy(g), check);
    // a single (root) directory with far more entries than fit an uncompressed root: long runs of distinct
    // small tiles, compressible directory, no leaves
    let wide: Vec<Case> = (0..ctx.tier.pick(4usize, 12))
        .map(|i| {
            let mut l = super::c13::small_layout(2 + (i % 3) as u8, 1);
            l.entries = (0..20_000 + 3000 * i).map(|k| crate::spec::writer::TEnt { gap: u32::from(k % 97 == 0), run: 1, sel: ((k * 7919) % 65536) as u16 }).collect();
            l.data_mode = 2;
            l.order = (i * 5 % 24) as u8;
            Case { l, open: (i % 3) as u8 }
        })
        .collect();
    // the same, perfectly regular: consecutive ids, run 1, one length, contiguous offsets - such a directory
    // compresses to a few dozen bytes, far fewer bytes than it has entries
    let mut wide = wide;
    for i in 0..ctx.tier.pick(3usize, 9) {
        let mut l = super::c13::small_layout(2 + (i % 3) as u8, 1);
        l.entries = (0..9_000 + 11_000 * (i / 3) + 1000 * i).map(|_| crate::spec::writer::TEnt { gap: 0, run: 1, sel: 0 }).collect();
        l.data_mode = 2;
        wide.push(Case { l, open: (i % 3) as u8 });
    }
    run_list(ctx, "single-directory-over-16384-entries", &wide, check);
    // leaves stored back to back whose compressed size sits right behind a decoder buffer boundary
    let mut st: Vec<Steered> = Vec::new();
    for (codec, buf) in [(2u8, 32_768u32), (2, 8192), (3, 4096), (3, 8192), (4, 131_075), (4, 8192), (1, 8192)] {
        for rem in ctx.tier.pick(vec![1u8, 4, 8], vec![0u8, 1, 2, 3, 4, 5, 6, 7, 8, 9, 16, 64]) {
            st.push(Steered { codec, buf, rem, seed: ctx.seed + u64::from(rem) * 31 + u64::from(buf) });
        }
    }
    run_list(ctx, "leaf-size-steered-onto-decoder-buffer-boundaries", &st, check_steered);
    let fx = fixtures();
    if fx.len() < 3 {
        ctx.rec.infra("repository fixtures not found under <repo>/test");
    }
    run_list(ctx, "repository-fixtures", &fx, check_fixture);
    for c in ["depth-2", "depth-3", "run>1", "shared-offset", "non-monotonic-offset", "sections-permuted", "gaps", "non-eliding", "metadata-length-0", "counters-unknown-0", "same-offset-different-length", "internal-brotli", "open-async"] {
        ctx.rec.floor(c, 20);
    }
}

pub fn replay(sub: &str, case: &Value) -> Option<CaseResult> {
    match sub {
        "foreign-layouts" | "single-directory-over-16384-entries" => Some(check(&super::de(case)?)),
        "leaf-size-steered-onto-decoder-buffer-boundaries" => Some(check_steered(&super::de(case)?)),
        "repository-fixtures" => Some(check_fixture(&super::de(case)?)),
        _ => None,
    }
}

#[cfg(test)]
mod steer_tests {
    #[test]
    fn leaf_size_steering_reaches_its_targets() {
        for (codec, buf) in [(2u8, 32_768u32), (2, 8192), (3, 4096), (3, 8192), (4, 131_075), (4, 8192), (1, 8192)] {
            for rem in [1u8, 4, 8] {
                let c = super::Steered { codec, buf, rem, seed: 1 + u64::from(rem) * 31 + u64::from(buf) };
                assert!(super::steered_archive(&c).is_some(), "steering gave up for codec {codec}, buffer {buf}, remainder {rem}");
            }
        }
    }
}
