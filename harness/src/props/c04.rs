//! C04 — under any edit history the archive behaves like a map from tile id to bytes.

use crate::engine::{run_indexed, run_list, run_proptest, CaseResult, Ctx, Meta, PtCfg};
use crate::model::content::ContentSpec;
use crate::model::history::{self, History, Init, Op};
use crate::spec::codec::Params;
use crate::spec::writer::{Layout, TEnt};
use serde_json::{json, Value};

/// small alphabet for the exhaustive part: ids {5,6,7}, contents A, B (same length, last byte
/// differs), A' (proper prefix of A); remove x3; reopen sync/async  => 14 symbols
const SYMBOLS: usize = 14;

fn small_pool() -> Vec<ContentSpec> {
    vec![
        ContentSpec { kind: 0, len: 6, seed: 0x11 },        // A
        ContentSpec { kind: 3, len: 6, seed: 0x11 << 8 },   // B: A with the last byte changed
        ContentSpec { kind: 6, len: 4, seed: (0x11 << 8) | 1 }, // A': 4-byte prefix of a 6-byte random string (same base family)
    ]
}

fn symbol(k: usize) -> Op {
    // selectors are chosen so that pick(sel, 4 ids) / pick(sel, 3 contents) land on the wanted index
    let id_sel = |i: usize| ((i as u32 * 65536 / 4) + 10) as u16; // alphabet [5,6,7,9]
    let c_sel = |c: usize| ((c as u32 * 65536 / 3) + 10) as u16;
    match k {
        0..=8 => Op::Add(id_sel(k / 3), c_sel(k % 3)),
        9..=11 => Op::Remove(id_sel(k - 9)),
        12 => Op::Reopen(false),
        _ => Op::Reopen(true),
    }
}

fn foreign_init() -> Layout {
    // entry(5, run 2, A), entry(7, run 1, A again: shared offset, not merged), entry(9, run 1, B) — outsider
    Layout {
        internal: 1,
        params: Params::default(),
        order: 0,
        gaps: [0, 3, 0, 5, 0],
        depth: 1,
        fan1: 4,
        fan2: 2,
        elide: true,
        leaf_shuffle: 0,
        leaf_gap: 0,
        first_id: 5,
        entries: vec![TEnt { gap: 0, run: 2, sel: 10 }, TEnt { gap: 0, run: 1, sel: 10 }, TEnt { gap: 1, run: 1, sel: 21855 + 10 }],
        pool: small_pool(),
        data_mode: 0,
        meta: None,
        tile_type: 1,
        tile_comp: 1,
        zooms: [0, 3, 1],
        coords: [0; 6],
        zero_counters: 0,
        overlap_prefixes: false,
        inline: 0,
        to_end: false,
    }
}

fn seq_history(from_foreign: bool, len: usize, mut idx: u64) -> History {
    let mut ops = Vec::with_capacity(len);
    for _ in 0..len {
        ops.push(symbol((idx % SYMBOLS as u64) as usize));
        idx /= SYMBOLS as u64;
    }
    History {
        init: if from_foreign { Init::Foreign(foreign_init(), false) } else { Init::Empty(false) },
        ids: vec![5, 6, 7, 9],
        pool: small_pool(),
        internal: 1,
        ops,
    }
}

/// run a history, comparing with the model after every step
fn check_history(h: &History, full_every_step: bool) -> CaseResult {
    let mut r = history::start(h, "C04")?;
    history::check_all(&mut r, "C04")?;
    for (k, op) in h.ops.iter().enumerate() {
        let before: Option<Vec<u8>> = match op {
            Op::Add(i, _) | Op::Remove(i) => r.model.get(&r.ids[crate::model::pick(*i, r.ids.len())]).cloned(),
            _ => None,
        };
        let touched = history::step(&mut r, op, "C04").map_err(|mut f| {
            f.msg = format!("step {k} {:?}: {}", op, f.msg);
            f
        })?;
        let res = (|| {
            if full_every_step {
                return history::check_all(&mut r, "C04");
            }
            if let Some(id) = touched {
                history::check_id(&mut r, id, "C04")?;
                history::check_id(&mut r, id.saturating_sub(1), "C04")?;
                history::check_id(&mut r, id.saturating_add(1), "C04")?;
                // every id sharing the touched content (old or new)
                let newc = r.model.get(&id).cloned();
                let sharing: Vec<u64> = r.model.iter().filter(|(_, v)| Some(*v) == before.as_ref() || Some(*v) == newc.as_ref()).map(|(k, _)| *k).take(50).collect();
                for s in sharing {
                    history::check_id(&mut r, s, "C04")?;
                }
                if r.arch.count() != r.model.len() {
                    fail!("C04/count-differs", "num_tiles() = {} but the model holds {}", r.arch.count(), r.model.len());
                }
            }
            if matches!(op, Op::Reopen(_)) {
                history::check_all(&mut r, "C04")?;
            }
            Ok(())
        })();
        res.map_err(|mut f: crate::engine::Fail| {
            f.msg = format!("after step {k} {:?}: {}", op, f.msg);
            f
        })?;
    }
    history::check_all(&mut r, "C04")?;
    let s = r.stats;
    Ok(Meta::new(s.replace_bound || s.edit_shared || s.edit_after_reopen)
        .label(s.replace_bound, "replace-bound-id")
        .label(s.edit_shared, "edit-shared-content")
        .label(s.edit_after_reopen, "edit-after-reopen")
        .label(s.reopens > 0, "has-reopen")
        .label(matches!(h.init, Init::Foreign(..)), "init-foreign")
        .label(matches!(h.init, Init::Written(..)), "init-written")
        .label(matches!(h.init, Init::Empty(_)), "init-empty"))
}

/// A long history on a big, regular archive: 20-33k adds, edits, save + reopen (sync and async); the directory of
/// such an archive compresses into a single root with far more than 16384 entries; without a codec it spills into leaves.
#[derive(Clone, Debug, serde::Serialize, serde::Deserialize)]
pub struct LongCase {
    pub n: u32,
    pub internal: u8,
    pub seed: u64,
}

fn check_long(c: &LongCase) -> CaseResult {
    use crate::engine::{guarded, Fail};
    use crate::libx::Arch;
    let l = crate::model::logical::dense(c.n as usize, c.seed, c.internal);
    let mut model = l.map();
    let mut a = l.build(false).map_err(|e| Fail::new("C04/harness", e))?;
    let ids: Vec<u64> = model.keys().copied().collect();
    let mut r = crate::engine::Sm(c.seed);
    for round in 0..2 {
        // a few edits
        for _ in 0..5 {
            let id = ids[r.below(ids.len() as u64) as usize];
            match r.below(3) {
                0 => {
                    a.remove(id);
                    model.remove(&id);
                }
                1 => {
                    let content = vec![7u8, r.below(250) as u8, 3];
                    a.add(id, content.clone()).map_err(|e| Fail::new("C04/add_tile-err", format!("{e}")))?;
                    model.insert(id, content);
                }
                _ => {
                    let other = model.values().next().cloned().unwrap_or(vec![1]);
                    a.add(id, other.clone()).map_err(|e| Fail::new("C04/add_tile-err", format!("{e}")))?;
                    model.insert(id, other);
                }
            }
        }
        let bytes = guarded("to_writer", || a.write())?.map_err(|e| Fail::new("C04/write-err", format!("{e}")))?;
        a = guarded("open", || if round == 0 { Arch::open_sync(bytes) } else { Arch::open_async(bytes) })?.map_err(|e| Fail::new("C04/open-err", format!("reopen failed: {e}")))?;
        super::c01::compare_tiles(&mut a, &model, None, c.seed + round, "C04")?;
    }
    Ok(Meta::new(true).label(true, "long-history-big-archive").label(true, "edit-after-reopen").label(true, "has-reopen"))
}

fn adversarial_probe() -> Vec<History> {
    // the colliding content family of C01 note 3 in an edit history: adding B under another id changes
    // what id 1 returns (same root cause, signature .../hash-adversarial)
    let pool = vec![ContentSpec { kind: 7, len: 32, seed: 0 }, ContentSpec { kind: 7, len: 32, seed: 1 }];
    vec![History { init: Init::Empty(false), ids: vec![1, 2], pool, internal: 1, ops: vec![Op::Add(0, 0), Op::Add(40000, 40000), Op::Lookup(0), Op::Remove(40000), Op::Lookup(0)] }]
}

fn check_probe(h: &History) -> CaseResult {
    check_history(h, true).map_err(|mut f| {
        if f.sig.starts_with("C04/lookup-differs") {
            f.sig = "C04/lookup-differs/hash-adversarial".into();
        }
        f
    })
}

pub fn run(ctx: &Ctx) {
    ctx.rec.set_rule(
        "exhaustive: all operation sequences of length L (every prefix is checked, so all shorter sequences are covered) over 14 symbols {add(id in {5,6,7}, content in \
         {A, B = A with last byte changed, A' = prefix}), remove(5..7), reopen sync, reopen async}, from the empty archive and from a 4-tile foreign archive with a run, \
         a shared offset kept as a separate entry, and an outsider id; all alphabet ids + outsider looked up, listed and counted after every step. Random: histories of up \
         to 60/300 ops over id alphabets of 2..10^3 ids and pools of up to 10 contents with near-duplicates, 4 internal compressions, initial state empty / library-written \
         / foreign layout (sync or async handle). Oracle: BTreeMap model. Non-trivial: history replaces a bound id, edits/removes an id whose content is shared, or edits \
         after a reopen; exhaustive sequences are distinct by construction (counted), random ones by digest.",
    );
    let len: usize = ctx.tier.pick(5, 6);
    let n = (SYMBOLS as u64).pow(len as u32);
    for from_foreign in [false, true] {
        let name = format!("exhaustive-len{len}-from-{}", if from_foreign { "foreign" } else { "empty" });
        run_indexed(ctx, &name, n, true, 256, |i| check_history(&seq_history(from_foreign, len, i), true), |i| json!({"from_foreign": from_foreign, "len": len, "index": i, "ops": seq_history(from_foreign, len, i).ops}));
    }
    let (max_ops, max_ids) = ctx.tier.pick((60, 300), (300, 3000));
    run_proptest(ctx, "random-histories", PtCfg::new(ctx.lanes, ctx.tier.pick(1000, 8000)), || history::history(max_ops, max_ids, 200), |h| check_history(h, h.ops.len() <= 12));
    let mut longs: Vec<LongCase> = (0..ctx.tier.pick(3u32, 9)).map(|i| LongCase { n: 20_000 + 4500 * i, internal: 2 + (i % 3) as u8, seed: ctx.seed + u64::from(i) }).collect();
    // the same without a codec: the directory spills into 2, 3, 4, ... leaves, with entry counts that leave a remainder
    longs.extend((0..ctx.tier.pick(4u32, 12)).map(|i| LongCase { n: 4101 + 1733 * i, internal: 1, seed: ctx.seed + 50 + u64::from(i) }));
    run_list(ctx, "long-history-on-big-archive", &longs, check_long);
    run_list(ctx, "finding-class-probes", &adversarial_probe(), check_probe);
    for c in ["replace-bound-id", "edit-shared-content", "edit-after-reopen", "init-foreign", "init-written", "init-empty"] {
        ctx.rec.floor(c, 20);
    }
}

pub fn replay(sub: &str, case: &Value) -> Option<CaseResult> {
    if sub.starts_with("exhaustive") {
        let ff = case.get("from_foreign")?.as_bool()?;
        let len = case.get("len")?.as_u64()? as usize;
        let idx = case.get("index")?.as_u64()?;
        return Some(check_history(&seq_history(ff, len, idx), true));
    }
    match sub {
        "random-histories" => {
            let h: History = super::de(case)?;
            Some(check_history(&h, true))
        }
        "finding-class-probes" => Some(check_probe(&super::de(case)?)),
        "long-history-on-big-archive" => Some(check_long(&super::de(case)?)),
        _ => None,
    }
}
