//! C05 — directory encoding is lossless and byte-exact to the v3 specification.

use crate::engine::{guarded, run_indexed, run_proptest, CaseResult, Ctx, Fail, Meta, PtCfg};
use crate::model::entries::{self, EDelta, ID_END};
use crate::spec::{codec, directory, SEntry};
use futures::executor::block_on;
use pmtiles2::{Directory, Entry};
use proptest::prelude::*;
use serde::{Deserialize, Serialize};
use serde_json::{json, Value};

pub fn to_lib(es: &[SEntry]) -> Directory {
    Directory::from(es.iter().map(|e| Entry { tile_id: e.id, offset: e.off, length: e.len, run_length: e.run }).collect::<Vec<_>>())
}

pub fn from_lib(d: &Directory) -> Vec<SEntry> {
    d.into_iter().map(|e| SEntry { id: e.tile_id, off: e.offset, len: e.length, run: e.run_length }).collect()
}

pub fn lib_write(d: &Directory, c: u8, asyncw: bool) -> std::io::Result<Vec<u8>> {
    if asyncw {
        let mut out = futures::io::Cursor::new(Vec::<u8>::new());
        block_on(d.to_async_writer(&mut out, codec::to_lib(c)))?;
        Ok(out.into_inner())
    } else {
        let mut out = std::io::Cursor::new(Vec::<u8>::new());
        d.to_writer(&mut out, codec::to_lib(c))?;
        Ok(out.into_inner())
    }
}

pub fn lib_read(bytes: &[u8], c: u8, asyncr: bool) -> std::io::Result<Directory> {
    if asyncr {
        let mut r = futures::io::Cursor::new(bytes);
        block_on(Directory::from_async_reader(&mut r, bytes.len() as u64, codec::to_lib(c)))
    } else {
        Directory::from_bytes(bytes, codec::to_lib(c))
    }
}

#[derive(Clone, Debug, Serialize, Deserialize)]
pub struct ListCase {
    pub ds: Vec<EDelta>,
    pub codec: u8,
    pub asyncw: bool,
    pub params: codec::Params,
}

fn classify(es: &[SEntry]) -> (bool, Vec<&'static str>) {
    let mut labels = Vec::new();
    let mut interesting = false;
    for (i, e) in es.iter().enumerate() {
        if e.run == 0 {
            labels.push("leaf-pointer");
            interesting = true;
        }
        if i > 0 {
            let contig = es[i - 1].off + u64::from(es[i - 1].len);
            if e.off == contig {
                labels.push("offset-elided");
                interesting = true;
            } else {
                labels.push("offset-explicit-after-0");
                interesting = true;
                if e.off == 0 {
                    labels.push("offset-zero-after-0");
                }
            }
        }
        if e.off >= (1 << 28) || e.len >= (1 << 28) || e.run >= (1 << 28) || e.id >= (1 << 28) {
            labels.push("varint>=5bytes");
            interesting = true;
        }
        if e.id + u64::from(e.run.max(1)) == crate::model::entries::ID_END {
            labels.push("ends-on-last-tile-id");
        }
    }
    labels.sort_unstable();
    labels.dedup();
    (es.len() >= 2 && interesting, labels)
}

/// All oracle clauses for one list and one codec / writer kind.
pub fn check_list(es: &[SEntry], c: u8, asyncw: bool, params: codec::Params, cross_all: bool) -> CaseResult {
    if let Err(e) = directory::valid(es) {
        fail!("C05/INFRA/harness-self-check", "generator produced an invalid list: {e}");
    }
    let kind = if asyncw { "async" } else { "sync" };
    let cname = codec::name(c);
    let d = to_lib(es);
    let want_raw = directory::encode(es, true);

    // every third list: the same thread first serialises (and parses) a directory the library refuses - the list
    // with one length set to 0 - so that whatever a refused call leaves behind meets the valid one
    let after_refused = es.len() % 3 == 1;
    if after_refused {
        let mut bad = es.to_vec();
        let k = bad.len() / 2;
        bad[k].len = 0;
        let bd = to_lib(&bad);
        let _ = guarded("Directory::to_writer", || lib_write(&bd, c, asyncw))?;
        let enc = codec::compress(c, &directory::encode(&bad, true), params);
        let _ = guarded("Directory::from_reader", || lib_read(&enc, c, asyncw))?;
    }

    // (a) library output, decompressed by the upstream crate, equals the independent encoder
    let out = guarded("Directory::to_writer", || lib_write(&d, c, asyncw))?
        .map_err(|e| Fail::new(format!("C05/to_writer-err/{kind}/{cname}"), format!("serialising a valid directory failed: {e}")))?;
    let (raw, all) = codec::decompress(c, &out, 1 << 30).map_err(|e| Fail::new(format!("C05/output-not-decodable/{kind}/{cname}"), e))?;
    ensure!(all, format!("C05/output-trailing-bytes/{kind}/{cname}"), "upstream decoder did not consume the whole output");
    if raw != want_raw {
        let at = raw.iter().zip(&want_raw).position(|(a, b)| a != b).unwrap_or(raw.len().min(want_raw.len()));
        fail!(
            format!("C05/bytes-differ/{kind}"),
            "uncompressed serialisation differs from the v3 encoding at byte {at} (lib {} bytes, spec {} bytes); entries {:?}",
            raw.len(),
            want_raw.len(),
            &es[..es.len().min(4)]
        );
    }

    // (b) the parser decodes the independent encoder's output (both offset spellings)
    for (elide, tag) in [(true, "canonical"), (false, "non-eliding")] {
        let enc = codec::compress(c, &directory::encode(es, elide), params);
        for asyncr in [false, true] {
            if !cross_all && asyncr != asyncw {
                continue;
            }
            let rk = if asyncr { "async" } else { "sync" };
            let got = guarded("Directory::from_reader", || lib_read(&enc, c, asyncr))?
                .map_err(|e| Fail::new(format!("C05/parse-err/{rk}/{tag}"), format!("parser rejected the independent encoder's output ({cname}): {e}")))?;
            let got = from_lib(&got);
            if got != es {
                let at = got.iter().zip(es).position(|(a, b)| a != b).unwrap_or(got.len().min(es.len()));
                fail!(format!("C05/parse-differs/{rk}/{tag}"), "parsed entries differ at index {at}: got {:?} want {:?}", got.get(at), es.get(at));
            }
        }
    }

    // (c) library round trip in every pairing
    for asyncr in [false, true] {
        let rk = if asyncr { "async" } else { "sync" };
        let got = guarded("Directory::from_reader", || lib_read(&out, c, asyncr))?
            .map_err(|e| Fail::new(format!("C05/roundtrip-err/{kind}->{rk}"), format!("own output rejected ({cname}): {e}")))?;
        ensure!(from_lib(&got) == es, format!("C05/roundtrip-differs/{kind}->{rk}"), "round trip changed the entries ({cname})");
    }
    let (nt, labels) = classify(es);
    let mut m = Meta::new(nt);
    m.labels = labels;
    m.labels.push(match c {
        1 => "codec-none",
        2 => "codec-gzip",
        3 => "codec-brotli",
        _ => "codec-zstd",
    });
    m.labels.push(if asyncw { "writer-async" } else { "writer-sync" });
    if after_refused {
        m.labels.push("after-a-refused-write-on-the-same-thread");
    }
    Ok(m)
}

fn check_case(c: &ListCase) -> CaseResult {
    let es = entries::build(&c.ds);
    let r = check_list(&es, c.codec, c.asyncw, c.params, true)?;
    if es.len() < 3000 {
        // the other writer kind too
        check_list(&es, c.codec, !c.asyncw, c.params, false)?;
    }
    Ok(r)
}

// ---- exhaustive small scope -------------------------------------------------------------

struct Sets {
    first: &'static [u64],
    step: &'static [u64],
    run: &'static [u32],
    len: &'static [u32],
    omode: &'static [u8], // 0 contiguous, 2 contiguous-1, 3 contiguous+1, 4 zero, 1 -> explicit 1, 5 -> explicit 2^62
}

const TOP: u64 = u64::MAX; // marker: place the entry at the top of the valid id domain

const FULL: Sets = Sets {
    first: &[0, 1, 127, 128, 1 << 32],
    step: &[0, 1, 127, 128, TOP],
    run: &[0, 1, 2, u32::MAX],
    len: &[1, 127, 128, u32::MAX],
    omode: &[4, 1, 0, 2, 3, 5],
};

const REDUCED: Sets = Sets { first: &[0, 1, 128], step: &[0, 1, 128], run: &[0, 1, 2], len: &[1, 128], omode: &[4, 0, 3, 1] };

fn per_entry(s: &Sets) -> u64 {
    (s.first.len() * s.run.len() * s.len.len() * s.omode.len()) as u64
}

/// decode index -> entry list of `k` entries over set `s`
fn small_list(s: &Sets, k: usize, mut idx: u64) -> Vec<SEntry> {
    let mut out: Vec<SEntry> = Vec::new();
    let mut next_id = 0u64;
    for j in 0..k {
        let pe = per_entry(s);
        let mut e = idx % pe;
        idx /= pe;
        let fi = (e % s.first.len() as u64) as usize;
        e /= s.first.len() as u64;
        let run = s.run[(e % s.run.len() as u64) as usize];
        e /= s.run.len() as u64;
        let len = s.len[(e % s.len.len() as u64) as usize];
        e /= s.len.len() as u64;
        let om = s.omode[(e % s.omode.len() as u64) as usize];
        let span = u64::from(run.max(1));
        let gap = if j == 0 { s.first[fi] } else { s.step[fi] };
        let id = if gap == TOP {
            if j + 1 == k {
                ID_END - span
            } else {
                next_id + (1 << 40)
            }
        } else {
            next_id + gap
        };
        let contig = out.last().map_or(0, |p| p.off + u64::from(p.len));
        let off = match om {
            0 => contig,
            2 => contig.saturating_sub(1),
            3 => contig + 1,
            4 => 0,
            1 => 1,
            _ => 1 << 62,
        };
        out.push(SEntry { id, off, len, run });
        next_id = id + span;
    }
    out
}

fn exhaustive(ctx: &Ctx, name: &str, s: &'static Sets, k: usize, codec_stride: u64) {
    let n = per_entry(s).pow(k as u32);
    run_indexed(
        ctx,
        name,
        n,
        true,
        4096,
        |i| {
            let es = small_list(s, k, i);
            let r = check_list(&es, 1, false, codec::Params::default(), true)?;
            check_list(&es, 1, true, codec::Params::default(), false)?;
            if i % codec_stride == 0 {
                let c = 2 + ((i / codec_stride) % 3) as u8;
                check_list(&es, c, (i / codec_stride / 3) % 2 == 1, codec::Params { level: (i % 10) as u8, flag: (i % 4) as u8 }, true)?;
            }
            Ok(r)
        },
        |i| json!({"index": i, "k": k, "set": name, "entries": small_list(s, k, i)}),
    );
}

fn case_strategy(max: usize) -> impl Strategy<Value = ListCase> {
    (entries::list(max), prop_oneof![4 => Just(1u8), 3 => Just(2u8), 1 => Just(3u8), 3 => Just(4u8)], any::<bool>(), (any::<u8>(), any::<u8>()))
        .prop_map(|(ds, codec, asyncw, (level, flag))| ListCase { ds, codec, asyncw, params: codec::Params { level, flag } })
}

/// very regular lists (consecutive ids, run 1, one length, contiguous offsets, a few irregular entries mixed
/// in): they compress far below one byte per entry
fn regular_strategy(max: usize) -> impl Strategy<Value = ListCase> {
    (30usize..=max, 1u32..5000, 1u8..=4, any::<bool>(), any::<u64>(), 0usize..4).prop_map(|(n, len, codec, asyncw, seed, odd)| {
        let mut r = crate::engine::Sm(seed);
        let mut ds: Vec<EDelta> = (0..n).map(|_| EDelta { gap: 0, run: 1, len, omode: 0, off: 0 }).collect();
        for _ in 0..odd {
            let k = r.below(n as u64) as usize;
            ds[k] = EDelta { gap: r.below(5), run: r.below(4) as u32, len: 1 + r.below(70_000) as u32, omode: [0u8, 1, 4][r.below(3) as usize], off: r.below(1 << 30) };
        }
        ListCase { ds, codec, asyncw, params: codec::Params { level: (seed % 10) as u8, flag: (seed >> 8) as u8 } }
    })
}

/// big lists (cheap codecs only for the very big ones)
fn big_strategy(max: usize) -> impl Strategy<Value = ListCase> {
    (max / 4..=max, any::<u64>(), prop_oneof![3 => Just(1u8), 2 => Just(2u8), 2 => Just(4u8)], any::<bool>()).prop_map(|(n, seed, codec, asyncw)| {
        let mut r = crate::engine::Sm(seed);
        let ds = (0..n)
            .map(|_| { let sh = 1 + r.below(20); EDelta {
                gap: if r.below(5) == 0 { r.below(1 << 20) } else { r.below(3) },
                run: if r.below(6) == 0 { 0 } else { 1 + r.below(4) as u32 },
                len: 1 + r.below(1 << sh) as u32,
                omode: [0u8, 0, 0, 1, 3][r.below(5) as usize],
                off: r.below(1 << 40),
            }})
            .collect();
        ListCase { ds, codec, asyncw, params: codec::Params { level: (seed % 10) as u8, flag: (seed % 4) as u8 } }
    })
}

pub fn run(ctx: &Ctx) {
    ctx.rec.set_rule(
        "exhaustive: every valid list of 1 and 2 entries over the full boundary sets (first id {0,1,127,128,2^32}, step {0,1,127,128,top of domain}, \
         run {0,1,2,2^32-1}, length {1,127,128,2^32-1}, offset {0,1,contiguous,contiguous-1,contiguous+1,2^62}) and of 3 entries over reduced (quick) / \
         full (thorough) sets, each through sync+async writers uncompressed and a strided sample through gzip/brotli/zstd; random: delta-recipe lists up to 10^4 / 10^5 \
         entries x codec x writer kind. Oracle: independent encoder/decoder (byte equality of the uncompressed form, entry equality after parsing the \
         independent encoder's canonical and non-eliding output, round trips in all sync/async pairings); every third list is preceded, on the same thread, by a \
         serialise and a parse the library refuses (one length set to 0). Non-trivial: >= 2 entries with an explicit offset \
         after index 0, an elided offset, a leaf pointer or a >= 5-byte varint.",
    );
    ctx.rec.assume("independent codec = harness/src/spec/{varint,directory}.rs; decompression by flate2/brotli/zstd called directly");
    exhaustive(ctx, "exhaustive-1-entry-full", &FULL, 1, 1);
    exhaustive(ctx, "exhaustive-2-entries-full", &FULL, 2, ctx.tier.pick(16, 4));
    match ctx.tier {
        crate::engine::Tier::Quick => exhaustive(ctx, "exhaustive-3-entries-reduced", &REDUCED, 3, 32),
        crate::engine::Tier::Thorough => exhaustive(ctx, "exhaustive-3-entries-full", &FULL, 3, 512),
    }
    run_proptest(ctx, "random-lists", PtCfg::new(ctx.lanes, ctx.tier.pick(400, 8000)), || case_strategy(ctx.tier.pick(400, 3000)), check_case);
    run_proptest(ctx, "regular-compressible-lists", PtCfg::new(ctx.lanes, ctx.tier.pick(60, 1500)), || regular_strategy(ctx.tier.pick(3000, 30_000)), check_case);
    // one list with more than 2^16 entries in every tier
    let wide = vec![ListCase { ds: (0..70_000u32).map(|i| EDelta { gap: u64::from(i % 3 == 0), run: 1 + (i % 2), len: 1 + (i % 300), omode: [0u8, 0, 1][(i % 3) as usize], off: u64::from(i) * 1000 }).collect(), codec: 1 + (ctx.seed % 4) as u8, asyncw: ctx.seed % 2 == 1, params: codec::Params::default() }];
    crate::engine::run_list(ctx, "list-over-65536-entries", &wide, check_case);
    // uncompressed directories whose first bytes are a codec's magic number (31 = 0x1f entries and a first id that
    // starts with 0x8b: gzip; 40 = 0x28 entries, first id b5 2f, second delta fd ..: zstd)
    let mk = |n: usize, first: u64, second_gap: u64| -> Vec<EDelta> {
        (0..n).map(|i| EDelta { gap: if i == 0 { first } else if i == 1 { second_gap } else { (i % 3) as u64 }, run: 1, len: 10 + i as u32, omode: (i % 2) as u8, off: 1000 * i as u64 }).collect()
    };
    let mut magic: Vec<ListCase> = Vec::new();
    for (n, first, second_gap) in [(31usize, 139u64, 0u64), (31, 267, 1), (31, 1035, 0), (31, 1035 + 128 * 7, 2), (40, 6069, 252), (40, 6069, 252 + 128), (30, 139, 0), (32, 139, 0)] {
        for asyncw in [false, true] {
            magic.push(ListCase { ds: mk(n, first, second_gap), codec: 1, asyncw, params: codec::Params::default() });
        }
    }
    crate::engine::run_list(ctx, "uncompressed-bytes-that-start-with-a-codec-magic", &magic, check_case);
    run_proptest(ctx, "random-big-lists", PtCfg { lanes: ctx.lanes, cases: ctx.tier.pick(2, 12), max_shrink: 64 }, || big_strategy(ctx.tier.pick(40_000, 100_000)), check_case);
    for c in ["offset-elided", "offset-explicit-after-0", "offset-zero-after-0", "leaf-pointer", "varint>=5bytes", "ends-on-last-tile-id", "after-a-refused-write-on-the-same-thread", "codec-brotli", "codec-gzip", "codec-zstd", "writer-async"] {
        ctx.rec.floor(c, 20);
    }
}

pub fn replay(sub: &str, case: &Value) -> Option<CaseResult> {
    if sub.starts_with("exhaustive") {
        let es: Vec<SEntry> = super::de(case.get("entries")?)?;
        return Some((|| {
            for c in 1..=4u8 {
                for a in [false, true] {
                    check_list(&es, c, a, codec::Params::default(), true)?;
                }
            }
            Ok(Meta::new(true))
        })());
    }
    match sub {
        "random-lists" | "random-big-lists" | "regular-compressible-lists" | "list-over-65536-entries" | "uncompressed-bytes-that-start-with-a-codec-magic" => Some(check_case(&super::de(case)?)),
        _ => None,
    }
}
