//! C06 — leaf-directory spill keeps the 16 KiB root budget and the exact mapping.

use crate::engine::{guarded, run_list, run_proptest, CaseResult, Ctx, Fail, Meta, PtCfg, Sm};
use crate::model::logical;
use crate::spec::reader::{self, Limits};
use crate::spec::{codec, directory, varint, SEntry};
use futures::executor::block_on;
use pmtiles2::util::WriteDirsOverflowStrategy;
use proptest::prelude::*;
use serde::{Deserialize, Serialize};
use serde_json::Value;
use std::collections::BTreeMap;

pub const BUDGET: usize = 16_384 - 127;

#[derive(Clone, Debug, Serialize, Deserialize)]
pub struct Case {
    /// 0 steered / high-entropy entries; 1 compressible entries (sequential ids, equal lengths, contiguous offsets)
    #[serde(default)]
    pub shape: u8,
    pub seed: u64,
    /// target size in bytes of the single-root encoding (steered), or an entry count when `by_count`
    pub target: u32,
    pub by_count: bool,
    pub codec: u8,
    /// None = library default; Some(n) = initial leaf size
    pub start: Option<u32>,
    pub asyncw: bool,
    pub pos0: u32,
}

fn entry_size(delta: u64, run: u32, len: u32, off_field: u64) -> usize {
    varint::len(delta) + varint::len(u64::from(run)) + varint::len(u64::from(len)) + varint::len(off_field)
}

/// Entry list whose *uncompressed* single-directory encoding is exactly `target` bytes (target >= 1).
pub fn steer_none(seed: u64, target: usize) -> Vec<SEntry> {
    if target <= 4 {
        return Vec::new(); // 1 byte; the caller's self-check reports the real size
    }
    let mut r = Sm(seed);
    // (encoded delta, run, len, explicit offset or None for contiguous)
    let mut rec: Vec<(u64, u32, u32, Option<u64>)> = Vec::new();
    let mut body = 0usize;
    let total = |n: usize, body: usize| varint::len(n as u64) + body;
    // random part (each entry <= 15 bytes)
    while total(rec.len() + 1, body) + 40 < target {
        let delta = 401 + match r.below(4) {
            0 => r.below(1 << 20),
            1 => r.below(200),
            _ => r.below(3),
        };
        let run = if r.below(5) == 0 { 1 + r.below(300) as u32 } else { 1 };
        let sh = 1 + r.below(22);
        let len = 1 + r.below(1 << sh) as u32;
        let off = if rec.is_empty() || r.below(3) == 0 { Some((1u64 << 35) + r.below(1 << 35)) } else { None };
        body += entry_size(delta, run, len, off.map_or(0, |o| o + 1));
        rec.push((delta, run, len, off));
    }
    if let Some(l) = rec.last_mut() {
        // minimal entries follow with delta 1: the last random run must not reach into them
        body -= varint::len(u64::from(l.1));
        l.1 = 1;
        body += 1;
    }
    // minimal entries: delta 1, run 1, len 1, contiguous (4 bytes); a list's first entry needs an explicit offset
    let first_min = rec.len();
    loop {
        let first = rec.is_empty();
        let sz = if first { entry_size(1, 1, 1, 1) } else { 4 };
        if total(rec.len() + 1, body + sz) > target {
            break;
        }
        rec.push((1, 1, 1, if first { Some(0) } else { None }));
        body += sz;
    }
    // the remainder (0..3 bytes, a little more when the count varint grows): widen len fields of minimal entries
    let mut k = rec.len();
    while total(rec.len(), body) < target && k > first_min {
        k -= 1;
        rec[k].2 = 128; // 2-byte varint
        body += 1;
    }
    let mut out = Vec::with_capacity(rec.len());
    let mut id = 0u64;
    for (delta, run, len, off) in rec {
        id = if out.is_empty() { delta } else { id + delta };
        let contig = out.last().map_or(0, |p: &SEntry| p.off + u64::from(p.len));
        let mut o = off.unwrap_or(contig);
        if off.is_some() && o == contig && !out.is_empty() {
            o += 1; // an explicit offset must not be accidentally contiguous (it would be elided)
        }
        out.push(SEntry { id, off: o, len, run });
    }
    out
}

/// high-entropy entries (compress poorly): `n` of them
pub fn entropy_entries(seed: u64, n: usize) -> Vec<SEntry> {
    let mut r = Sm(seed ^ 0xe47);
    let mut id = 0u64;
    (0..n)
        .map(|_| {
            id += 2 + r.below(1 << 14);
            SEntry { id, off: r.below(1 << 34), len: 1 + r.below(1 << 20) as u32, run: 1 }
        })
        .collect()
}

pub fn lib_single_len(es: &[SEntry], c: u8, a: bool) -> Result<usize, Fail> {
    let d = super::c05::to_lib(es);
    Ok(guarded("Directory::to_writer", || super::c05::lib_write(&d, c, a))?.map_err(|e| Fail::new("C06/harness", format!("{e}")))?.len())
}

/// For codecs: bisect the count of high-entropy entries so that the compressed single root lands next
/// to `target`, then nudge the last entry to get as close as possible (library encoder as measuring device).
pub fn steer_codec(seed: u64, target: usize, c: u8, a: bool) -> Result<Vec<SEntry>, Fail> {
    let all = entropy_entries(seed, target / 4 + 8);
    let (mut lo, mut hi) = ((target / 14).max(1), (target / 5 + 2).min(all.len() - 1));
    while lo < hi {
        let mid = (lo + hi + 1) / 2;
        if lib_single_len(&all[..mid], c, a)? <= target {
            lo = mid;
        } else {
            hi = mid - 1;
        }
    }
    let mut best = all[..lo].to_vec();
    let mut best_d = target.abs_diff(lib_single_len(&best, c, a)?);
    let mut r = Sm(seed ^ 0x51);
    for _ in 0..8 {
        if best_d == 0 {
            break;
        }
        let mut cand = all[..lo + (r.below(2) as usize)].to_vec();
        if let Some(l) = cand.last_mut() {
            let sh = 1 + r.below(27);
            l.len = 1 + r.below(1 << sh) as u32;
            let sh2 = 1 + r.below(50);
            l.off = r.below(1 << sh2);
        }
        let d = target.abs_diff(lib_single_len(&cand, c, a)?);
        if d < best_d {
            best = cand;
            best_d = d;
        }
    }
    Ok(best)
}

/// keeps the fat entries of shape 2 inside the tile-id domain
const ID_END_GUARD: u64 = crate::model::entries::ID_END - (1 << 51);

pub fn build_entries(c: &Case) -> Result<Vec<SEntry>, Fail> {
    if c.shape == 2 {
        // few but fat entries: every field near the top of its range (id deltas >= 2^49, runs and lengths >= 2^28,
        // explicit offsets up to 2^62), 25-30 bytes each - a list of a few hundred entries overflows the root
        let mut r = Sm(c.seed ^ 0xfa7);
        let mut id = r.below(1 << 20);
        let mut out = Vec::with_capacity(c.target as usize);
        for _ in 0..c.target {
            let run = (1u32 << 28) + r.below(1 << 28) as u32;
            out.push(SEntry { id, off: (1u64 << 61) + r.below(1 << 60), len: (1u32 << 28) + r.below((1u64 << 32) - (1 << 28)) as u32, run });
            id += u64::from(run) + (1u64 << 49) + r.below(1 << 49);
            if id >= ID_END_GUARD {
                break;
            }
        }
        return Ok(out);
    }
    if c.shape == 1 {
        // long but highly compressible list: under a codec it fits a single root although it has far more
        // entries than an uncompressed root could hold
        let first = c.seed % 1000;
        return Ok((0..u64::from(c.target)).map(|i| SEntry { id: first + i, off: 40 * i, len: 40, run: 1 }).collect());
    }
    if c.by_count {
        let mut es = entropy_entries(c.seed, c.target as usize);
        // mix in runs and contiguous offsets
        let mut r = Sm(c.seed);
        for i in 1..es.len() {
            if r.below(4) == 0 {
                es[i].off = es[i - 1].off + u64::from(es[i - 1].len);
            }
        }
        return Ok(es);
    }
    if c.codec == 1 {
        let es = steer_none(c.seed, c.target as usize);
        let got = directory::encode(&es, true).len();
        // a handful of tiny sizes cannot be hit exactly (e.g. 12 = count + two 4-byte entries + three widenings);
        // they are nowhere near the budget, so the list is used as it is. A miss at a relevant size is a defect of
        // this generator, not of the library: inconclusive, never a violation.
        if c.target >= 64 && got != c.target as usize {
            return Err(Fail::new("C06/INFRA/size-steering", format!("size steering missed: wanted {} bytes, built {got}", c.target)));
        }
        Ok(es)
    } else {
        steer_codec(c.seed, c.target as usize, c.codec, c.asyncw)
    }
}

fn decode_dir(blob: &[u8], c: u8, what: &str) -> Result<Vec<SEntry>, Fail> {
    let (raw, all) = codec::decompress(c, blob, 1 << 30).map_err(|e| Fail::new(format!("C06/{what}-not-decodable"), e))?;
    ensure!(all, format!("C06/{what}-length-not-exact"), "{what}: the codec stream ends before the declared byte length ({} bytes declared)", blob.len());
    let (es, used) = directory::decode(&raw).map_err(|e| Fail::new(format!("C06/{what}-not-decodable"), format!("{e:?}")))?;
    ensure!(used == raw.len(), format!("C06/{what}-length-not-exact"), "{what}: {} undecoded bytes follow the directory", raw.len() - used);
    Ok(es)
}

/// The structural oracle on (root bytes R, leaf section S).
pub fn check_split(r: &[u8], s: &[u8], all: &[SEntry], c: u8, a: bool) -> Result<(bool, usize), Fail> {
    let single = lib_single_len(all, c, a)?;
    ensure!(r.len() <= BUDGET, "C06/root-over-budget", "root directory is {} bytes, budget is {BUDGET}", r.len());
    if s.is_empty() {
        let es = decode_dir(r, c, "root")?;
        ensure!(es == all, "C06/single-root-differs", "single root decodes to {} entries, expected {}", es.len(), all.len());
        ensure!(single <= BUDGET, "C06/harness", "no spill although the single root would be {single} bytes");
        return Ok((false, single));
    }
    ensure!(single > BUDGET, "C06/spill-not-necessary", "leaf directories were written although the whole list fits in a single root of {single} bytes (budget {BUDGET})");
    let root = decode_dir(r, c, "root")?;
    ensure!(!root.is_empty(), "C06/root-empty", "spilled root has no entries");
    let mut ranges: Vec<(u64, u64)> = Vec::new();
    let mut concat: Vec<SEntry> = Vec::with_capacity(all.len());
    for (i, p) in root.iter().enumerate() {
        ensure!(p.run == 0, "C06/root-has-tile-entry", "root entry {i} has run length {} (root must contain only leaf pointers)", p.run);
        let end = p.off + u64::from(p.len);
        ensure!(end <= s.len() as u64, "C06/pointer-outside-leaf-section", "pointer {i}: [{},{end}) outside leaf section of {} bytes", p.off, s.len());
        ranges.push((p.off, end));
        let leaf = decode_dir(&s[p.off as usize..end as usize], c, "leaf")?;
        ensure!(!leaf.is_empty(), "C06/empty-leaf", "pointer {i} addresses an empty leaf");
        ensure!(leaf[0].id == p.id, "C06/pointer-id-not-first-id-of-leaf", "pointer {i} carries id {} but its leaf starts with id {}", p.id, leaf[0].id);
        ensure!(leaf.iter().all(|e| e.run > 0), "C06/leaf-has-pointer", "leaf {i} contains a leaf pointer");
        concat.extend(leaf);
    }
    ranges.sort_unstable();
    for w in ranges.windows(2) {
        ensure!(w[0].1 <= w[1].0, "C06/leaf-ranges-overlap", "leaf ranges {:?} and {:?} overlap", w[0], w[1]);
    }
    if concat != all {
        let at = concat.iter().zip(all).position(|(x, y)| x != y).unwrap_or(concat.len().min(all.len()));
        fail!("C06/leaves-do-not-reproduce-entries", "resolving root and leaves gives {} entries, expected {}; first difference at {at}: {:?} vs {:?}", concat.len(), all.len(), concat.get(at), all.get(at));
    }
    Ok((true, single))
}

fn check(c: &Case) -> CaseResult {
    let all = build_entries(c)?;
    directory::valid(&all).map_err(|e| Fail::new("C06/INFRA/harness-self-check", format!("steering produced an invalid list: {e}")))?;
    let lib_entries: Vec<pmtiles2::Entry> = all.iter().map(|e| pmtiles2::Entry { tile_id: e.id, offset: e.off, length: e.len, run_length: e.run }).collect();
    // (the two largest u32 recipes stand for the two largest usize values)
    let strat = Some(WriteDirsOverflowStrategy::OnlyLeafPointers {
        start_size: c.start.map(|s| match s {
            u32::MAX => usize::MAX,
            s if s == u32::MAX - 1 => usize::MAX - 1,
            s => s as usize,
        }),
    });
    let lc = codec::to_lib(c.codec);
    let pos0 = c.pos0 as usize;
    let prefill = vec![0x5Au8; pos0];
    let kind = if c.asyncw { "async" } else { "sync" };
    let (leaf, data, end) = if c.asyncw {
        let mut o = futures::io::Cursor::new(prefill.clone());
        o.set_position(pos0 as u64);
        let l = guarded("write_directories_async", || block_on(pmtiles2::util::write_directories_async(&mut o, &lib_entries, lc, strat)))?.map_err(|e| Fail::new(format!("C06/write-err/{kind}"), format!("{e}")))?;
        let p = o.position();
        (l, o.into_inner(), p)
    } else {
        let mut o = std::io::Cursor::new(prefill.clone());
        o.set_position(pos0 as u64);
        let l = guarded("write_directories", || pmtiles2::util::write_directories(&mut o, &lib_entries, lc, strat))?.map_err(|e| Fail::new(format!("C06/write-err/{kind}"), format!("{e}")))?;
        let p = o.position();
        (l, o.into_inner(), p)
    };
    ensure!(data[..pos0] == prefill[..], "C06/bytes-before-start-changed", "bytes before the starting position {pos0} were modified");
    ensure!(end as usize >= pos0 && end as usize <= data.len(), "C06/harness", "stream position {end} outside the stream");
    let r = &data[pos0..end as usize];
    let (spilled, single) = check_split(r, &leaf, &all, c.codec, c.asyncw)?;
    // util::read_directories on the assembled bytes returns the reference expansion
    let total_run: u64 = all.iter().map(|e| u64::from(e.run)).sum();
    if total_run <= 1 << 20 {
        let mut img = r.to_vec();
        let leaf_off = img.len() as u64;
        img.extend_from_slice(&leaf);
        let m = guarded("read_directories", || pmtiles2::util::read_directories(&mut std::io::Cursor::new(&img[..]), lc, (0, r.len() as u64), leaf_off, ..))?.map_err(|e| Fail::new("C06/read_directories-err", format!("{e}")))?;
        let got: BTreeMap<u64, (u64, u32)> = m.into_iter().map(|(k, v)| (k, (v.offset, v.length))).collect();
        let mut want = BTreeMap::new();
        for e in &all {
            for k in 0..u64::from(e.run) {
                want.insert(e.id + k, (e.off, e.len));
            }
        }
        ensure!(got == want, "C06/read_directories-differs", "resolving the written directories gives {} ids, expected {}", got.len(), want.len());
    }
    let near = single.abs_diff(BUDGET) <= 130 || single.abs_diff(16_384) <= 130;
    Ok(Meta::new(spilled || near)
        .label(spilled, "spilled")
        .label(!spilled, "single-root")
        .label(single == BUDGET, "single-root-exactly-at-budget")
        .label(single == BUDGET + 1, "single-root-budget+1")
        .label(single > BUDGET && single <= 16_384, "single-root-in-window-16257..16384")
        .label(near, "near-budget")
        .label(c.start == Some(1), "start-size-1")
        .label(c.start.is_none(), "start-size-default")
        .label(c.start.map_or(false, |s| s as usize > all.len()), "start-size>list")
        .label(c.start.map_or(false, |s| s >= u32::MAX - 1), "start-size-usize-max")
        .label(c.pos0 > 0, "non-zero-start-position")
        .label(c.asyncw, "async")
        .label(!c.asyncw, "sync")
        .label(true, super::c01::codec_label(c.codec)))
}

// ---- whole-archive writes ------------------------------------------------------------------

#[derive(Clone, Debug, Serialize, Deserialize)]
pub struct ArchCase {
    pub n: u32,
    pub seed: u64,
    pub internal: u8,
    pub asyncw: bool,
}

fn check_archive(c: &ArchCase) -> CaseResult {
    let l = logical::large(c.n as usize, c.seed, c.internal);
    let bytes = super::c01::write_logical(&l, c.asyncw).map_err(|f| Fail::new(f.sig.replace("C01/", "C06/"), f.msg))?;
    let lim = Limits { max_tiles: 1 << 24, max_visits: 100_000, max_dir_bytes: 256 << 20, max_depth: 4 };
    let ar = reader::parse(&bytes, &lim).map_err(|r| Fail::new(format!("C06/archive/spec-reader-rejects/{}", r.tag), r.msg))?;
    let h = &ar.header;
    ensure!(h.root_off == 127 && h.root_len as usize <= BUDGET, "C06/archive/root-over-budget", "root at {} length {}", h.root_off, h.root_len);
    let r = &bytes[h.root_off as usize..(h.root_off + h.root_len) as usize];
    let s = &bytes[h.leaf_off as usize..(h.leaf_off + h.leaf_len) as usize];
    let (spilled, single) = check_split(r, s, &ar.tile_entries, c.internal, c.asyncw).map_err(|f| Fail::new(f.sig.replace("C06/", "C06/archive/"), f.msg))?;
    let model = l.map();
    ensure!(ar.tiles.len() == model.len(), "C06/archive/addressed-ids-differ", "{} ids addressed, model has {}", ar.tiles.len(), model.len());
    Ok(Meta::new(spilled || single.abs_diff(BUDGET) <= 130).label(spilled, "archive-spilled").label(!spilled, "archive-single-root").label(true, super::c01::codec_label(c.internal)))
}

fn strategy() -> impl Strategy<Value = Case> {
    let target = prop_oneof![
        5 => (16_255u32..=16_259),
        3 => (16_382u32..=16_386),
        2 => (16_100u32..16_500),
        2 => (1u32..16_000),
        1 => (16_500u32..60_000),
    ];
    let start = prop_oneof![3 => Just(None), 1 => Just(Some(1u32)), 1 => Just(Some(2u32)), 1 => Just(Some(7u32)), 1 => Just(Some(4096u32)), 1 => Just(Some(1_000_000u32)), 1 => (1u32..3000).prop_map(Some), 1 => prop_oneof![Just(Some(u32::MAX)), Just(Some(u32::MAX - 1)), Just(Some(u32::MAX - 2)), Just(Some(1u32 << 31))]];
    (any::<u64>(), target, prop_oneof![3 => Just(1u8), 2 => Just(2u8), 1 => Just(3u8), 2 => Just(4u8)], start, any::<bool>(), prop_oneof![2 => Just(0u32), 1 => 1u32..5000])
        .prop_map(|(seed, target, codec, start, asyncw, pos0)| {
            // start size 1 on a big list means one codec stream per entry and many doubling rounds: keep those lists moderate
            let target = if start == Some(1) || start == Some(2) { target.min(17_000) } else { target };
            Case { shape: 0, seed, target, by_count: false, codec, start, asyncw, pos0 }
        })
}

pub fn run(ctx: &Ctx) {
    ctx.rec.set_rule(
        "entry lists size-steered so that the single-root encoding lands on 16255..16259 and 16382..16386 bytes (uncompressed: exactly, by choosing varint widths; codecs: by \
         bisecting the number of high-entropy entries with the library's encoder as the measuring device and nudging the last entry) and far on both sides, plus lists of up to \
         10^5 entries by count x 4 compressions x initial leaf size {default, 1, 2, 7, 4096, > list, random, 2^31, 2^32-3, usize::MAX-1, usize::MAX} x sync/async x stream starting position 0 / non-zero, through \
         util::write_directories(_async); and whole-archive writes of fixed-seed recipes around the spill threshold. Oracle: root <= 16257 bytes; no spill => root decodes to the \
         whole list; spill => it was necessary (library's own single-directory encoding > 16257), root has only pointers, each pointer's byte range lies inside the returned leaf \
         section, ranges are disjoint, each range decodes as exactly one directory with nothing left over, pointer id = first id of its leaf, leaves concatenate to the original \
         entries; util::read_directories on root+leaves returns the reference expansion. Non-trivial: spilled, or single-root size within 130 bytes of 16257/16384; distinct by digest.",
    );
    run_proptest(ctx, "steered-lists", PtCfg::new(ctx.lanes, ctx.tier.pick(60, 4000)), strategy, check);
    // by count, including very large lists
    let counts: Vec<Case> = (0..ctx.tier.pick(12, 48))
        .map(|i| {
            let n = [0u32, 1, 2, 500, 3000, 4100, 9000, 20_000, 50_000, 100_000, 7000, 12_000][i % 12];
            let codec = 1 + ((i / 3) % 4) as u8;
            let n = if codec == 3 { n.min(20_000) } else { n };
            Case { shape: 0, seed: ctx.seed + i as u64, target: n, by_count: true, codec, start: [None, Some(4096), Some(7), Some(300_000)][(i / 2) % 4], asyncw: i % 2 == 1, pos0: if i % 3 == 0 { 333 } else { 0 } }
        })
        .collect();
    run_list(ctx, "lists-by-count", &counts, check);
    // compressible lists far longer than an uncompressed root could hold (must stay a single root under a codec,
    // must spill uncompressed), and uncompressed lists with tiny initial leaf sizes whose first pointer-only root
    // attempts are far beyond 64 KiB
    let mut shaped: Vec<Case> = Vec::new();
    for (k, n) in [4065u32, 4100, 5000, 10_000, 20_000, 50_000].iter().enumerate() {
        for codec in [2u8, 3, 4, 1] {
            if codec == 3 && *n > 20_000 && ctx.tier == crate::engine::Tier::Quick {
                continue;
            }
            shaped.push(Case { shape: 1, seed: ctx.seed + k as u64, target: *n, by_count: true, codec, start: [None, Some(4096), Some(1000)][k % 3], asyncw: (k + usize::from(codec)) % 2 == 0, pos0: 0 });
        }
    }
    for (k, n) in [16_384u32, 17_000, 20_000, 33_000, 40_000, 70_000].iter().enumerate() {
        for start in [1u32, 2, 3] {
            shaped.push(Case { shape: (k % 2) as u8, seed: ctx.seed + 50 + k as u64, target: *n, by_count: true, codec: 1, start: Some(start), asyncw: (k + start as usize) % 2 == 1, pos0: if k % 3 == 1 { 77 } else { 0 } });
        }
    }
    // a few hundred fat entries (25-30 bytes each): more than 16 KiB although the list is short
    for (k, n) in [500u32, 560, 581, 600, 640, 676, 677, 700, 1200].iter().enumerate() {
        for codec in [1u8, 2, 4] {
            shaped.push(Case { shape: 2, seed: ctx.seed + 900 + k as u64, target: *n, by_count: true, codec, start: [None, Some(4096), Some(64)][k % 3], asyncw: (k + usize::from(codec)) % 2 == 1, pos0: 0 });
        }
    }
    run_list(ctx, "compressible-and-tiny-leaf-lists", &shaped, check);
    // exact boundary for every codec / kind (uncompressed exact; codecs best effort)
    let mut edge: Vec<Case> = Vec::new();
    for codec in 1..=4u8 {
        for asyncw in [false, true] {
            for t in [BUDGET as u32 - 1, BUDGET as u32, BUDGET as u32 + 1, 16_384, 16_385] {
                for start in [None, Some(1u32), Some(4096)] {
                    if start == Some(1) && codec == 3 {
                        continue;
                    }
                    edge.push(Case { shape: 0, seed: ctx.seed ^ u64::from(t) ^ u64::from(codec) << 20, target: t, by_count: false, codec, start, asyncw, pos0: 0 });
                }
            }
        }
    }
    run_list(ctx, "budget-edges-every-codec", &edge, check);
    let archs: Vec<ArchCase> = (0..ctx.tier.pick(12, 48)).map(|i| ArchCase { n: [3000u32, 3600, 4000, 4200, 5000, 8000, 2500, 12_000][i % 8] + (i as u32 / 8) * 37, seed: 40 + i as u64, internal: 1 + (i % 4) as u8, asyncw: i % 3 == 0 }).collect();
    run_list(ctx, "whole-archive-writes", &archs, check_archive);
    for c in ["spilled", "single-root", "single-root-exactly-at-budget", "single-root-budget+1", "single-root-in-window-16257..16384", "start-size-1", "start-size-default", "start-size>list", "non-zero-start-position", "async", "sync", "archive-spilled", "archive-single-root", "internal-brotli", "internal-gzip", "internal-zstd", "internal-none"] {
        ctx.rec.floor(c, 2);
    }
}

pub fn replay(sub: &str, case: &Value) -> Option<CaseResult> {
    match sub {
        "steered-lists" | "lists-by-count" | "budget-edges-every-codec" | "compressible-and-tiny-leaf-lists" => Some(check(&super::de(case)?)),
        "whole-archive-writes" => Some(check_archive(&super::de(case)?)),
        _ => None,
    }
}

#[cfg(test)]
mod steer_tests {
    #[test]
    fn steer_none_hits_every_size_from_64() {
        for seed in 0..6u64 {
            for target in 64usize..20_000 {
                let es = super::steer_none(seed * 7919 + 1, target);
                let got = crate::spec::directory::encode(&es, true).len();
                assert_eq!(got, target, "seed {seed}");
            }
        }
    }
}
