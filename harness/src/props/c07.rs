//! C07 — tile IDs are the specification's Hilbert IDs; out-of-grid lookups do not alias.

use crate::engine::{guarded, run_indexed, run_proptest, CaseResult, Ctx, Meta, PtCfg};
use crate::libx::Arch;
use crate::spec::hilbert;
use proptest::prelude::*;
use serde::{Deserialize, Serialize};
use serde_json::{json, Value};

#[derive(Clone, Debug, Serialize, Deserialize)]
pub struct Pt {
    pub z: u8,
    pub x: u64,
    pub y: u64,
}

#[derive(Clone, Debug, Serialize, Deserialize)]
pub struct IdCase {
    pub id: u64,
}

#[derive(Clone, Debug, Serialize, Deserialize)]
pub struct Lookup {
    pub z: u8,
    pub x: u64,
    pub y: u64,
    /// 0 in-memory sync, 1 reader-backed sync, 2 in-memory async, 3 reader-backed async
    pub backing: u8,
}

/// one id of the exhaustive sweep: both directions + structural consequences
fn check_id(id: u64, zmax_children: u32) -> CaseResult {
    let Some((z, x, y)) = hilbert::id_to_zxy(id) else {
        fail!("C07/INFRA/harness-self-check", "reference rejects id {id}")
    };
    let got = guarded("util::zxy", || pmtiles2::util::zxy(id))?;
    match got {
        Ok(t) => ensure!(t == (z, x, y), "C07/zxy-differs", "zxy({id}) = {:?}, specification says {:?}", t, (z, x, y)),
        Err(_) => fail!("C07/zxy-rejects-valid-id", "zxy({id}) is Err but the id belongs to zoom {z}"),
    }
    let back = guarded("util::tile_id", || pmtiles2::util::tile_id(z, x, y))?;
    ensure!(back == id, "C07/tile_id-differs", "tile_id({z},{x},{y}) = {back}, specification says {id}");
    let base = hilbert::base(u32::from(z)) as u64;
    // contiguity / adjacency inside the zoom block (library answers only)
    if id > base {
        let prev = guarded("util::zxy", || pmtiles2::util::zxy(id - 1))?;
        if let Ok((pz, px, py)) = prev {
            ensure!(pz == z, "C07/block-not-contiguous", "id {} has zoom {pz} but id {id} has zoom {z}", id - 1);
            let d = px.abs_diff(x) + py.abs_diff(y);
            ensure!(d == 1, "C07/not-edge-adjacent", "ids {} and {id} map to ({px},{py}) and ({x},{y}) at z{z}: not edge-adjacent", id - 1);
        } else {
            fail!("C07/zxy-rejects-valid-id", "zxy({}) is Err", id - 1);
        }
    }
    // four children occupy one aligned block of four
    if u32::from(z) < zmax_children {
        let cbase = hilbert::base(u32::from(z) + 1) as u64;
        let mut ids = [0u64; 4];
        for (k, (dx, dy)) in [(0u64, 0u64), (1, 0), (0, 1), (1, 1)].iter().enumerate() {
            ids[k] = guarded("util::tile_id", || pmtiles2::util::tile_id(z + 1, 2 * x + dx, 2 * y + dy))?;
        }
        ids.sort_unstable();
        let want = cbase + 4 * (id - base);
        ensure!(
            ids == [want, want + 1, want + 2, want + 3],
            "C07/children-not-aligned-block",
            "children of {z}/{x}/{y} have ids {:?}, expected the aligned block starting at {want}",
            ids
        );
    }
    let corner = {
        let m = (1u64 << z) - 1;
        (x == 0 || x == m) && (y == 0 || y == m)
    };
    Ok(Meta::new(z >= 2 && !corner))
}

fn check_pt(p: &Pt) -> CaseResult {
    let Some(want) = hilbert::zxy_to_id(p.z, p.x, p.y) else {
        fail!("C07/INFRA/harness-self-check", "generator produced an out-of-grid point {:?}", p)
    };
    let got = guarded("util::tile_id", || pmtiles2::util::tile_id(p.z, p.x, p.y))?;
    ensure!(got == want, "C07/tile_id-differs", "tile_id({},{},{}) = {got}, specification says {want}", p.z, p.x, p.y);
    let back = guarded("util::zxy", || pmtiles2::util::zxy(want))?;
    match back {
        Ok(t) => ensure!(t == (p.z, p.x, p.y), "C07/zxy-differs", "zxy({want}) = {:?}, expected {:?}", t, (p.z, p.x, p.y)),
        Err(_) => fail!("C07/zxy-rejects-valid-id", "zxy({want}) is Err"),
    }
    // the same cell asked again at other zooms, back to back (the answer must not depend on the previous call)
    let mut others = 0;
    for z2 in [p.z.saturating_add(1), p.z.saturating_add(5), 31, p.z.saturating_sub(1), p.z] {
        if z2 > 31 || z2 == p.z && others == 0 {
            continue;
        }
        let Some(w2) = hilbert::zxy_to_id(z2, p.x, p.y) else { continue };
        let g2 = guarded("util::tile_id", || pmtiles2::util::tile_id(z2, p.x, p.y))?;
        ensure!(g2 == w2, "C07/tile_id-differs/after-another-zoom", "tile_id({z2},{},{}) = {g2} right after the same cell at zoom {}, specification says {w2}", p.x, p.y, p.z);
        others += 1;
    }
    let m = (1u64 << p.z) - 1;
    let corner = (p.x == 0 || p.x == m) && (p.y == 0 || p.y == m);
    Ok(Meta::new(p.z >= 2 && !corner).label(p.z >= 16, "zoom>=16").label(p.z == 31, "zoom31").label(others > 0, "same-cell-at-several-zooms-back-to-back"))
}

fn check_idcase(c: &IdCase) -> CaseResult {
    let want = hilbert::id_to_zxy(c.id);
    let got = guarded("util::zxy", || pmtiles2::util::zxy(c.id))?;
    match (want, got) {
        (Some(w), Ok(g)) => {
            ensure!(w == g, "C07/zxy-differs", "zxy({}) = {:?}, specification says {:?}", c.id, g, w);
            let back = guarded("util::tile_id", || pmtiles2::util::tile_id(g.0, g.1, g.2))?;
            ensure!(back == c.id, "C07/tile_id-differs", "tile_id{:?} = {back}, expected {}", g, c.id);
            Ok(Meta::new(w.0 >= 2).label(true, "id-in-domain"))
        }
        (None, Err(_)) => Ok(Meta::new(true).label(true, "id-beyond-domain")),
        (Some(w), Err(_)) => fail!("C07/zxy-rejects-valid-id", "zxy({}) is Err, specification says {:?}", c.id, w),
        (None, Ok(g)) => fail!("C07/zxy-accepts-id-beyond-zoom31", "zxy({}) = {:?} but the id lies at or beyond the first id of zoom 32", c.id, g),
    }
}

fn content_for(id: u64) -> Vec<u8> {
    let mut v = b"tile#".to_vec();
    v.extend_from_slice(id.to_string().as_bytes());
    v
}

fn check_lookup(c: &Lookup) -> CaseResult {
    let want_id = hilbert::zxy_to_id(c.z, c.x, c.y);
    // ids stored in the archive: 0, last of zoom 31, the in-grid tile the wrapped coordinates would
    // alias to, and whatever id the library's own tile_id() computes for the coordinates (so that
    // any aliasing scheme is observable as Some(_)).
    let mut ids: Vec<u64> = vec![0, hilbert::domain_end() - 1];
    if c.z <= 31 {
        let m = (1u64 << c.z) - 1;
        if let Some(a) = hilbert::zxy_to_id(c.z, c.x & m, c.y & m) {
            ids.push(a);
        }
    } else {
        let zz = c.z % 32;
        let m = (1u64 << zz) - 1;
        if let Some(a) = hilbert::zxy_to_id(zz, c.x & m, c.y & m) {
            ids.push(a);
        }
    }
    if let Ok(mapped) = crate::engine::catch(|| pmtiles2::util::tile_id(c.z, c.x, c.y)) {
        ids.push(mapped);
    }
    if let Some(w) = want_id {
        ids.push(w);
    }
    ids.sort_unstable();
    ids.dedup();
    let asyncw = c.backing >= 2;
    let mut a = if asyncw { Arch::new_async() } else { Arch::new_sync() };
    let mut f = a.fields();
    f.internal = 1;
    a.set_fields(&f);
    for id in &ids {
        a.add(*id, content_for(*id)).map_err(|e| crate::engine::Fail::new("C07/harness", format!("add_tile: {e}")))?;
    }
    if c.backing % 2 == 1 {
        let bytes = guarded("to_writer", || a.write())?.map_err(|e| crate::engine::Fail::new("C07/harness", format!("write failed: {e}")))?;
        a = if asyncw { Arch::open_async(bytes) } else { Arch::open_sync(bytes) }.map_err(|e| crate::engine::Fail::new("C07/harness", format!("reopen failed: {e}")))?;
    }
    let api = if asyncw { "get_tile_async" } else { "get_tile" };
    let r = guarded(api, || a.get_zxy(c.x, c.y, c.z));
    match want_id {
        Some(w) => {
            let r = r?;
            match r {
                Ok(Some(b)) => ensure!(b == content_for(w), "C07/in-grid-lookup-wrong-tile", "{api}({},{},{}) returned another tile's bytes", c.x, c.y, c.z),
                Ok(None) => fail!("C07/in-grid-lookup-none", "{api}({},{},{}) returned None for a stored in-grid tile (id {w})", c.x, c.y, c.z),
                Err(e) => fail!("C07/in-grid-lookup-err", "{api}({},{},{}) returned Err({e}) for a stored in-grid tile", c.x, c.y, c.z),
            }
            Ok(Meta::new(false).label(true, "lookup-in-grid"))
        }
        None => {
            let kind = if c.z > 31 { "zoom>31" } else { "xy-outside-grid" };
            match r {
                Err(f) => Err(crate::engine::Fail::new(format!("C07/out-of-grid-lookup-panics/{kind}"), f.msg)),
                Ok(Ok(Some(b))) => fail!(
                    format!("C07/out-of-grid-lookup-aliases/{kind}"),
                    "{api}(x={},y={},z={}) does not denote a tile but returned {} bytes ({:?})",
                    c.x,
                    c.y,
                    c.z,
                    b.len(),
                    String::from_utf8_lossy(&b)
                ),
                Ok(Ok(None)) | Ok(Err(_)) => Ok(Meta::new(true).label(c.z > 31, "lookup-zoom>31").label(c.z <= 31, "lookup-xy-outside")),
            }
        }
    }
}

fn pt_strategy() -> impl Strategy<Value = Pt> {
    (0u8..=31).prop_flat_map(|z| {
        let m = (1u64 << z) - 1;
        let coord = move || {
            prop_oneof![
                2 => Just(0u64),
                2 => Just(m),
                1 => Just(m / 2),
                1 => Just((m / 2 + 1).min(m)),
                1 => Just(0x5555_5555_5555_5555u64 & m),
                1 => Just(0xAAAA_AAAA_AAAA_AAAAu64 & m),
                2 => (0u32..=u32::from(z)).prop_map(move |b| (1u64 << b) & m),
                2 => (0u32..=u32::from(z)).prop_map(move |b| m & !(1u64 << b)),
                6 => 0..=m,
            ]
        };
        (Just(z), coord(), coord()).prop_map(|(z, x, y)| Pt { z, x, y })
    })
}

fn id_strategy() -> impl Strategy<Value = IdCase> {
    let end = hilbert::domain_end();
    prop_oneof![
        4 => (0u32..=32, 0u64..3, any::<bool>()).prop_map(|(z, d, below)| {
            let b = hilbert::base(z) as u64;
            IdCase { id: if below { b.saturating_sub(d + 1) } else { b + d } }
        }),
        3 => (0..end).prop_map(|id| IdCase { id }),
        2 => (end..=u64::MAX).prop_map(|id| IdCase { id }),
        1 => prop_oneof![Just(end), Just(end + 1), Just(u64::MAX), Just(u64::MAX - 1), Just(1u64 << 63), Just(end - 1)].prop_map(|id| IdCase { id }),
    ]
}

fn lookup_strategy() -> impl Strategy<Value = Lookup> {
    let z = prop_oneof![6 => 0u8..=31, 2 => 32u8..=64, 2 => 32u8..=255];
    (z, 0u8..4).prop_flat_map(|(z, backing)| {
        let zz = u32::from(z.min(63));
        let n: u64 = if zz >= 64 { u64::MAX } else { 1u64.checked_shl(zz).unwrap_or(u64::MAX) };
        let m = n.wrapping_sub(1);
        let coord = move || {
            prop_oneof![
                3 => (0u64..=m.max(0)),                                  // in grid (for z <= 31)
                2 => Just(n),                                            // 2^z
                2 => (0u64..1000).prop_map(move |k| n.saturating_add(k)), // 2^z + k
                2 => (1u64..1000, 0u64..=m).prop_map(move |(mm, r)| mm.saturating_mul(n).saturating_add(r)), // m*2^z + in-grid
                1 => Just(u64::MAX),
                1 => Just(u64::MAX - 1),
                1 => Just(1u64 << 32),
                1 => Just(1u64 << 63),
                1 => any::<u64>(),
            ]
        };
        (Just(z), coord(), coord(), Just(backing)).prop_map(|(z, x, y, backing)| Lookup { z, x, y, backing })
    })
}

pub fn run(ctx: &Ctx) {
    ctx.rec.set_rule(
        "exhaustive: every tile id of zooms 0..=Z in id order, both conversions against an independent rotate-and-flip Hilbert \
         implementation, plus block contiguity, edge adjacency and the aligned block of four children; generated: boundary / bit-pattern / \
         uniform points at every zoom 0-31, zoom-block edge ids +-1, ids beyond the domain up to u64::MAX; lookup clause: (z,x,y) in u8 x u64 x u64 \
         against archives (in-memory and reader-backed, sync and async) that hold the aliased in-grid tile and the id the library's own \
         tile_id() maps the coordinates to. Non-trivial: z >= 2 and not one of the four corner tiles (conversions); coordinates that do not denote a tile (lookups). \
         Exhaustive indices are distinct by construction and counted; generated cases are counted by digest.",
    );
    ctx.rec.assume("reference = harness/src/spec/hilbert.rs, written from the specification's algorithm; shares no code with hilbert_2d");
    let zmax: u32 = ctx.tier.pick(12, 16);
    let n = hilbert::base(zmax + 1) as u64;
    run_indexed(ctx, &format!("exhaustive-ids-z0..{zmax}"), n, true, 1 << 14, |i| check_id(i, zmax), |i| {
        json!({"id": i, "zxy": hilbert::id_to_zxy(i)})
    });
    let cases = ctx.tier.pick(3000, 60_000);
    run_proptest(ctx, "points-all-zooms", PtCfg::new(ctx.lanes, cases), pt_strategy, check_pt);
    run_proptest(ctx, "ids-boundaries-and-beyond", PtCfg::new(ctx.lanes, cases), id_strategy, check_idcase);
    run_proptest(ctx, "lookup-by-coordinates", PtCfg::new(ctx.lanes, ctx.tier.pick(600, 12_000)), lookup_strategy, check_lookup);
    ctx.rec.floor("lookup-zoom>31", 50);
    ctx.rec.floor("lookup-xy-outside", 50);
    ctx.rec.floor("lookup-in-grid", 50);
    ctx.rec.floor("id-beyond-domain", 50);
    ctx.rec.floor("zoom31", 10);
}

pub fn replay(sub: &str, case: &Value) -> Option<CaseResult> {
    if sub.starts_with("exhaustive-ids") {
        let id = case.get("id")?.as_u64()?;
        return Some(check_id(id, 31));
    }
    match sub {
        "points-all-zooms" => Some(check_pt(&super::de(case)?)),
        "ids-boundaries-and-beyond" => Some(check_idcase(&super::de(case)?)),
        "lookup-by-coordinates" => Some(check_lookup(&super::de(case)?)),
        _ => None,
    }
}
