//! C08 — malformed input is answered with an error value, never a crash.

use crate::engine::{run_list, run_proptest, CaseResult, Ctx, Fail, Meta, PtCfg};
use crate::model::layout::{self, LGen};
use crate::sandbox::battery::{self, API_NAMES};
use crate::sandbox::{self, Job, Verdict};
use crate::spec::reader::{self, Limits};
use crate::spec::writer::{self, ByteMut, Layout, MutVal, Mutations};
use crate::spec::{codec, varint, SHeader};
use proptest::prelude::*;
use serde::{Deserialize, Serialize};
use serde_json::Value;

pub fn limits() -> Limits {
    Limits { max_tiles: 1 << 21, max_visits: 10_000, max_dir_bytes: 64 << 20, max_depth: 64 }
}

/// Outside the claim? (declared work above the budget, measured by the reference walker)
pub fn over_budget(job: &Job) -> bool {
    if std::env::var("VERIF_NO_WALKER").is_ok() {
        return false; // debugging aid: rely on the worker's observed counters only
    }
    match job.mode {
        0 => {
            let w = reader::declared_work(&job.bytes, &limits());
            if w.over {
                return true;
            }
            // metadata section that expands hugely
            if let Ok(h) = SHeader::decode(&job.bytes) {
                if (1..=4).contains(&h.internal) && h.meta_len > 0 {
                    let lo = h.meta_off.min(job.bytes.len() as u64) as usize;
                    let hi = h.meta_off.saturating_add(h.meta_len).min(job.bytes.len() as u64) as usize;
                    if let Err(e) = codec::decompress(h.internal, &job.bytes[lo..hi], 64 << 20) {
                        if e.contains("budget") {
                            return true;
                        }
                    }
                }
            }
            false
        }
        1..=5 => {
            let c = job.mode - 1;
            if (1..=4).contains(&c) {
                if let Err(e) = codec::decompress(c, &job.bytes, 64 << 20) {
                    return e.contains("budget");
                }
            }
            false
        }
        7 => {
            let c = job.bytes.first().copied().unwrap_or(0) % 5;
            if (1..=4).contains(&c) {
                if let Err(e) = codec::decompress(c, &job.bytes[1..], 64 << 20) {
                    return e.contains("budget");
                }
            }
            false
        }
        _ => false,
    }
}

/// Execute one job in the sandbox and judge it.
pub fn judge(job: &Job) -> CaseResult {
    judge_with(job, false)
}

/// `attribute`: after a process death, find the API call that kills the worker (13 more executions);
/// done in replay mode only, the search itself keys deaths by signal.
pub fn judge_with(job: &Job, attribute: bool) -> CaseResult {
    if over_budget(job) {
        return Ok(Meta::new(false).label(true, "excluded-over-budget"));
    }
    let modename = match job.mode {
        0 => "archive",
        1..=5 => "directory",
        6 => "header",
        7 => "decompress",
        _ => "ids",
    };
    match sandbox::run_job(job) {
        Verdict::Returned(n) => Ok(Meta::new(false).label(n > 0, "returned")),
        Verdict::OverBudget => Ok(Meta::new(false).label(true, "excluded-over-budget").label(true, "excluded-over-budget-observed-by-worker")),
        Verdict::Panic(api, site, msg) => Err(Fail::new(format!("C08/panic/{api}/{site}"), format!("{modename} input of {} bytes: {api} panicked: {msg} at {site}", job.bytes.len()))),
        Verdict::Died(how) => {
            let api = if attribute { sandbox::attribute(job).map_or("unattributed".to_string(), |b| API_NAMES[b as usize].to_string()) } else { "replay the saved case for the API attribution".to_string() };
            let short: String = how.split(' ').take(2).collect::<Vec<_>>().join("-");
            Err(Fail::new(format!("C08/process-died/{short}/{modename}"), format!("{modename} input of {} bytes kills the process: {how} ({api})", job.bytes.len())))
        }
        Verdict::Timeout => Err(Fail::new("C08/INFRA/timeout", format!("{modename} input of {} bytes: no answer within {:?}", job.bytes.len(), sandbox::CASE_TIMEOUT))),
        Verdict::Infra(e) => Err(Fail::new("C08/INFRA/worker", e)),
    }
}

// ---- generator 1: crafted corpus ------------------------------------------------------------

fn vals(v: &[u64]) -> Vec<u8> {
    let mut out = Vec::new();
    for x in v {
        varint::put(&mut out, *x);
    }
    out
}

/// assemble [header][root][metadata "{}"][leaves][64 data bytes] with the given raw directories
pub fn assemble(c: u8, root_raw: &[u8], leaves_raw: &[Vec<u8>], patch: impl Fn(&mut SHeader, &[(u64, u64)])) -> Vec<u8> {
    assemble_meta(c, root_raw, leaves_raw, b"{}", patch)
}

pub fn assemble_meta(c: u8, root_raw: &[u8], leaves_raw: &[Vec<u8>], meta_raw: &[u8], patch: impl Fn(&mut SHeader, &[(u64, u64)])) -> Vec<u8> {
    let p = codec::Params::default();
    let root = codec::compress(c, root_raw, p);
    let meta = codec::compress(c, meta_raw, p);
    let mut leaf_sec = Vec::new();
    let mut places = Vec::new();
    for l in leaves_raw {
        let blob = codec::compress(c, l, p);
        places.push((leaf_sec.len() as u64, blob.len() as u64));
        leaf_sec.extend_from_slice(&blob);
    }
    let mut h = SHeader {
        root_off: 127,
        root_len: root.len() as u64,
        meta_off: 127 + root.len() as u64,
        meta_len: meta.len() as u64,
        leaf_off: 127 + (root.len() + meta.len()) as u64,
        leaf_len: leaf_sec.len() as u64,
        data_off: 127 + (root.len() + meta.len() + leaf_sec.len()) as u64,
        data_len: 64,
        n_addressed: 1,
        n_entries: 1,
        n_contents: 1,
        clustered: 1,
        internal: c,
        tile_comp: 1,
        tile_type: 1,
        min_zoom: 0,
        max_zoom: 1,
        min_lon: 0,
        min_lat: 0,
        max_lon: 0,
        max_lat: 0,
        center_zoom: 0,
        center_lon: 0,
        center_lat: 0,
    };
    patch(&mut h, &places);
    let mut out = h.encode().to_vec();
    out.extend_from_slice(&root);
    out.extend_from_slice(&meta);
    out.extend_from_slice(&leaf_sec);
    out.extend_from_slice(&[0x77; 64]);
    out
}

#[derive(Clone, Debug, Serialize, Deserialize)]
pub struct Crafted {
    pub name: String,
    pub job: Job,
}

pub fn crafted_corpus() -> Vec<Crafted> {
    let mut out: Vec<Crafted> = Vec::new();
    let mut add_dir = |name: &str, raw: Vec<u8>, out: &mut Vec<Crafted>| {
        for c in 1..=4u8 {
            let blob = codec::compress(c, &raw, codec::Params::default());
            out.push(Crafted { name: format!("dir/{name}/{}", codec::name(c)), job: Job { mode: c + 1, mask: battery::default_mask(c + 1), bytes: blob } });
            // the same directory as the root of an archive
            let arch = assemble(c, &raw, &[], |_, _| {});
            out.push(Crafted { name: format!("archive-root/{name}/{}", codec::name(c)), job: Job { mode: 0, mask: battery::MASK_ARCHIVE, bytes: arch } });
        }
        out.push(Crafted { name: format!("dir/{name}/declared-unknown"), job: Job { mode: 1, mask: battery::default_mask(1), bytes: raw } });
    };
    // entry counts
    for (n, cnt) in [("count-2^64-1", u64::MAX), ("count-2^63", 1 << 63), ("count-2^60", 1 << 60), ("count-2^40", 1 << 40), ("count-2^35", 1 << 35), ("count-2^32", 1 << 32), ("count-2^31", 1 << 31), ("count-2^27", 1 << 27), ("count-remaining+1", 6)] {
        add_dir(n, vals(&[cnt, 1, 1, 1, 1]), &mut out);
    }
    add_dir("count-1-nothing-else", vals(&[1]), &mut out);
    add_dir("empty-input", vec![], &mut out);
    // id deltas overflowing the running sum
    add_dir("id-sum-overflow", vals(&[2, 1 << 63, 1 << 63, 1, 1, 5, 5, 1, 0]), &mut out);
    add_dir("id-sum-overflow-max", vals(&[3, u64::MAX, 1, 1, 1, 1, 1, 5, 5, 5, 1, 0, 0]), &mut out);
    // zero first offset
    add_dir("zero-first-offset", vals(&[1, 0, 1, 1, 0]), &mut out);
    add_dir("zero-first-offset-2", vals(&[2, 5, 1, 1, 1, 3, 3, 0, 0]), &mut out);
    // offset + length overflow
    add_dir("offset-plus-length-overflow", vals(&[2, 1, 1, 1, 1, 5, 5, u64::MAX, 0]), &mut out);
    add_dir("offset-max", vals(&[1, 1, 1, 5, u64::MAX]), &mut out);
    // run length expansion overflowing the id
    add_dir("run-overflows-id", vals(&[1, u64::MAX - 2, 10, 5, 1]), &mut out);
    add_dir("run-overflows-id-exact", vals(&[1, u64::MAX, 1, 5, 1]), &mut out);
    add_dir("run-u32-overflow", vals(&[1, 1, 1 << 32, 5, 1]), &mut out);
    add_dir("length-u32-overflow", vals(&[1, 1, 1, 1 << 32, 1]), &mut out);
    add_dir("length-zero", vals(&[1, 1, 1, 0, 1]), &mut out);
    add_dir("length-u32-max", vals(&[1, 1, 1, u64::from(u32::MAX), 1]), &mut out);
    // varints
    add_dir("truncated-varint", vec![0x81], &mut out);
    add_dir("truncated-varint-mid", vec![2, 1, 0x80], &mut out);
    add_dir("varint-11-bytes", vec![0xff; 11], &mut out);
    add_dir("varint-10-bytes-too-big", vec![0xff, 0xff, 0xff, 0xff, 0xff, 0xff, 0xff, 0xff, 0xff, 0x7f], &mut out);
    add_dir("varint-overlong-zero", vec![0x80, 0x80, 0x80, 0x00, 0x80, 0x00], &mut out);
    // truncated codec streams and bombs
    for c in 2..=4u8 {
        let good = codec::compress(c, &vals(&[1, 1, 1, 5, 1]), codec::Params::default());
        for cut in [1usize, 2, good.len() / 2, good.len() - 1] {
            out.push(Crafted { name: format!("dir/truncated-codec-stream-{cut}/{}", codec::name(c)), job: Job { mode: c + 1, mask: battery::default_mask(c + 1), bytes: good[..cut.min(good.len())].to_vec() } });
        }
        let bomb = codec::compress(c, &vec![0u8; 80 << 20], codec::Params { level: 6, flag: 0 });
        out.push(Crafted { name: format!("dir/decompression-bomb-80MiB/{}", codec::name(c)), job: Job { mode: c + 1, mask: battery::default_mask(c + 1), bytes: bomb.clone() } });
        let mut d = vec![c];
        d.extend_from_slice(&bomb);
        out.push(Crafted { name: format!("decompress/bomb-80MiB/{}", codec::name(c)), job: Job { mode: 7, mask: battery::MASK_DECOMPRESS, bytes: d } });
        let mid = codec::compress(c, &vec![7u8; 8 << 20], codec::Params { level: 6, flag: 0 });
        out.push(Crafted { name: format!("dir/expands-to-8MiB-of-sevens/{}", codec::name(c)), job: Job { mode: c + 1, mask: battery::default_mask(c + 1), bytes: mid } });
    }
    // archives: header offsets near 2^64
    for c in 1..=4u8 {
        let cn = codec::name(c);
        let tile = vals(&[2, 3, 1, 1, 1, 10, 10, 1, 0]);
        let mut arch = |name: &str, bytes: Vec<u8>| out.push(Crafted { name: format!("archive/{name}/{cn}"), job: Job { mode: 0, mask: battery::MASK_ARCHIVE, bytes } });
        arch("valid-control", assemble(c, &tile, &[], |_, _| {}));
        arch("tile-data-offset-2^64-1", assemble(c, &tile, &[], |h, _| h.data_off = u64::MAX));
        arch("tile-data-offset-2^64-5", assemble(c, &tile, &[], |h, _| h.data_off = u64::MAX - 4));
        arch("tile-data-offset-2^63", assemble(c, &tile, &[], |h, _| h.data_off = 1 << 63));
        arch("root-offset-2^64-1", assemble(c, &tile, &[], |h, _| h.root_off = u64::MAX));
        arch("root-length-2^64-1", assemble(c, &tile, &[], |h, _| h.root_len = u64::MAX));
        arch("root-length-0", assemble(c, &tile, &[], |h, _| h.root_len = 0));
        arch("metadata-offset-2^64-1", assemble(c, &tile, &[], |h, _| h.meta_off = u64::MAX));
        arch("metadata-length-2^64-1", assemble(c, &tile, &[], |h, _| h.meta_len = u64::MAX));
        arch("metadata-length-past-eof", assemble(c, &tile, &[], |h, _| h.meta_len = 1 << 20));
        arch("everything-2^64-1", assemble(c, &tile, &[], |h, _| {
            h.root_off = u64::MAX;
            h.root_len = u64::MAX;
            h.meta_off = u64::MAX;
            h.meta_len = u64::MAX;
            h.leaf_off = u64::MAX;
            h.leaf_len = u64::MAX;
            h.data_off = u64::MAX;
            h.data_len = u64::MAX;
        }));
        arch("tile-length-u32-max", assemble(c, &vals(&[1, 3, 1, u64::from(u32::MAX), 1]), &[], |_, _| {}));
        arch("tile-offset-huge", assemble(c, &vals(&[1, 3, 1, 10, 1 << 62]), &[], |_, _| {}));
        // a readable tile followed by one whose absolute offset lies just below / at / just above 2^63 (signed seek arithmetic)
        for (nm, off) in [("2^63-300", (1u64 << 63) - 300), ("2^63-1", (1u64 << 63) - 1), ("2^63", 1u64 << 63), ("2^63+5", (1u64 << 63) + 5), ("2^64-300", u64::MAX - 300)] {
            arch(&format!("second-tile-offset-{nm}"), assemble(c, &vals(&[2, 3, 1, 1, 1, 10, 10, 1, off.wrapping_add(1)]), &[], |_, _| {}));
        }
        arch("run-length-2^21", assemble(c, &vals(&[1, 3, 1 << 21, 10, 1]), &[], |_, _| {}));
        arch("run-length-2^32-1-over-budget", assemble(c, &vals(&[1, 3, u64::from(u32::MAX), 10, 1]), &[], |_, _| {}));
        // leaf pointers
        let ptr = |id: u64, off: u64, len: u64| vals(&[1, id, 0, len, off + 1]);
        arch("leaf-offset-header-2^64-1", assemble(c, &ptr(0, 5, 10), &[tile.clone()], |h, _| h.leaf_off = u64::MAX));
        arch("leaf-pointer-offset-2^64-2", assemble(c, &ptr(0, u64::MAX - 1, 10), &[tile.clone()], |_, _| {}));
        arch("leaf-pointer-length-u32-max", assemble(c, &ptr(0, 0, u64::from(u32::MAX)), &[tile.clone()], |_, _| {}));
        arch("leaf-pointer-outside-section", assemble(c, &ptr(0, 1 << 30, 10), &[tile.clone()], |_, _| {}));
        // cycles: the leaf's blob length must be known to point at itself; uncompressed lengths are
        // predictable, for codecs the pointer is found by fixpoint search over the length field
        for depth in [1usize, 2, 3] {
            if let Some(a) = cycle_archive(c, depth) {
                arch(&format!("leaf-cycle-{depth}"), a);
            }
        }
        for n in [10usize, 20, 40, 63, 64, 65, 100, 1000, 3000, 6000, 9500, 100_000] {
            arch(&format!("leaf-chain-{n}"), chain_archive(c, n));
        }
        // ids that do not ascend / repeat, around leaf pointers (readers that derive a leaf's id span from its neighbours)
        let leaf = tile.clone();
        let with_leaf = |root: Vec<u8>| assemble(c, &root, &[leaf.clone()], |_, _| {});
        // [pointer(id 0) -> leaf, tile entry with id delta 0]
        arch("leaf-pointer-id0-then-same-id", with_leaf(vals(&[2, 0, 0, 0, 1, 30, 10, 1, 1])));
        arch("leaf-pointer-then-same-id", with_leaf(vals(&[2, 5, 0, 0, 1, 30, 10, 1, 1])));
        arch("two-leaf-pointers-same-id", with_leaf(vals(&[2, 0, 0, 0, 0, 30, 30, 1, 1])));
        arch("tile-run-then-pointer-inside-run", with_leaf(vals(&[2, 7, 1, 3, 0, 10, 30, 1, 1])));
        arch("pointer-last-id-u64max", with_leaf(vals(&[2, 0, u64::MAX, 0, 0, 30, 30, 1, 1])));
        // metadata nested very deeply (a JSON parser without a depth limit recurses once per level)
        for (nm, open, close) in [("array", "[", "]"), ("object", "{\"a\":", "}")] {
            for depth in [200usize, 5_000, 300_000] {
                let mut m = open.repeat(depth);
                if depth < 10_000 {
                    m.push('1');
                    m.push_str(&close.repeat(depth));
                }
                arch(&format!("metadata-nested-{nm}-{depth}"), assemble_meta(c, &tile, &[], m.as_bytes(), |_, _| {}));
            }
        }
        // well-formed metadata of the wrong kind, long and full of multi-byte characters at every alignment
        // (error paths that quote or truncate what they found)
        for pad in 0..4usize {
            for (nm, ch) in [("2-byte", "\u{e9}"), ("3-byte", "\u{20ac}"), ("4-byte", "\u{1F5FA}")] {
                let text = format!("{}{}", "a".repeat(pad), ch.repeat(150));
                arch(&format!("metadata-string-{nm}-chars-pad{pad}"), assemble_meta(c, &tile, &[], serde_json::to_string(&text).unwrap_or_default().as_bytes(), |_, _| {}));
                arch(&format!("metadata-array-{nm}-chars-pad{pad}"), assemble_meta(c, &tile, &[], serde_json::to_string(&vec![text.clone(), text]).unwrap_or_default().as_bytes(), |_, _| {}));
            }
        }
        arch("metadata-not-utf8", {
            let mut a = assemble(c, &tile, &[], |_, _| {});
            let h = SHeader::decode(&a).unwrap();
            if c == 1 {
                a[h.meta_off as usize] = 0xff;
            }
            a
        });
    }
    // headers
    let base = assemble(1, &vals(&[0]), &[], |_, _| {});
    for (name, f) in [("all-zero", vec![0u8; 127]), ("all-ff", vec![0xffu8; 127]), ("magic-only", b"PMTiles".to_vec()), ("126-bytes", base[..126].to_vec()), ("version-2", {
        let mut b = base[..127].to_vec();
        b[7] = 2;
        b
    })] {
        out.push(Crafted { name: format!("header/{name}"), job: Job { mode: 6, mask: battery::MASK_HEADER, bytes: f.clone() } });
        out.push(Crafted { name: format!("archive/header-{name}"), job: Job { mode: 0, mask: battery::MASK_ARCHIVE, bytes: f } });
    }
    // ids
    let mut idb = Vec::new();
    for id in [0u64, 1, 5, crate::spec::hilbert::domain_end() - 1, crate::spec::hilbert::domain_end(), u64::MAX, 1 << 63, u64::MAX - 1] {
        idb.extend_from_slice(&id.to_le_bytes());
    }
    out.push(Crafted { name: "ids/boundaries".into(), job: Job { mode: 8, mask: battery::MASK_IDS, bytes: idb } });
    out
}

/// archive whose leaf directories form a cycle of the given length (leaf i points to leaf i+1 mod n)
fn cycle_archive(c: u8, n: usize) -> Option<Vec<u8>> {
    // Fixed-size leaf blobs are needed so that offsets can be computed up front: encode each leaf as
    // [count=1][id delta][run=0][len L][offset O+1] where L and O are padded to 4- and 5-byte varints.
    let pad = |v: u64, bytes: usize| -> Vec<u8> {
        let mut o = Vec::new();
        let mut x = v;
        for i in 0..bytes {
            let mut b = (x & 0x7f) as u8;
            x >>= 7;
            if i + 1 < bytes {
                b |= 0x80;
            }
            o.push(b);
        }
        o
    };
    // blob sizes depend on the codec; iterate to a fixpoint on the compressed length
    let mut blob_len = vec![0u64; n];
    for _ in 0..8 {
        let mut offs = vec![0u64; n];
        let mut acc = 0;
        for i in 0..n {
            offs[i] = acc;
            acc += blob_len[i];
        }
        let mut leaves = Vec::new();
        let mut new_len = Vec::new();
        for i in 0..n {
            let j = (i + 1) % n;
            let mut raw = vec![1u8, (i as u8) + 1, 0];
            raw.extend(pad(blob_len[j], 4));
            raw.extend(pad(offs[j] + 1, 5));
            new_len.push(codec::compress(c, &raw, codec::Params::default()).len() as u64);
            leaves.push(raw);
        }
        if new_len == blob_len {
            let mut root = vec![1u8, 1, 0];
            root.extend(pad(blob_len[0], 4));
            root.extend(pad(1, 5));
            return Some(assemble(c, &root, &leaves, |_, _| {}));
        }
        blob_len = new_len;
    }
    None
}

/// root -> leaf 0 -> leaf 1 -> ... -> leaf n-1 (one tile entry)
fn chain_archive(c: u8, n: usize) -> Vec<u8> {
    // build from the tail so that every blob length is known when the pointer to it is written
    let p = codec::Params::default();
    let mut blobs: Vec<Vec<u8>> = Vec::with_capacity(n);
    let tail = codec::compress(c, &vals(&[1, 7, 1, 10, 1]), p);
    blobs.push(tail);
    // leaves are stored in reverse order: blob k sits after blobs 0..k
    let mut offset_of_prev = 0u64;
    let mut acc = blobs[0].len() as u64;
    for _ in 1..n {
        let prev_len = blobs.last().map_or(0, |b| b.len() as u64);
        let raw = vals(&[1, 7, 0, prev_len, offset_of_prev + 1]);
        let blob = codec::compress(c, &raw, p);
        offset_of_prev = acc;
        acc += blob.len() as u64;
        blobs.push(blob);
    }
    let last_len = blobs.last().map_or(0, |b| b.len() as u64);
    let root = vals(&[1, 7, 0, last_len, offset_of_prev + 1]);
    // assemble by hand (leaf blobs are already compressed)
    let rootb = codec::compress(c, &root, p);
    let meta = codec::compress(c, b"{}", p);
    let leaf_sec: Vec<u8> = blobs.concat();
    let h = SHeader {
        root_off: 127,
        root_len: rootb.len() as u64,
        meta_off: 127 + rootb.len() as u64,
        meta_len: meta.len() as u64,
        leaf_off: 127 + (rootb.len() + meta.len()) as u64,
        leaf_len: leaf_sec.len() as u64,
        data_off: 127 + (rootb.len() + meta.len() + leaf_sec.len()) as u64,
        data_len: 64,
        n_addressed: 1,
        n_entries: 1,
        n_contents: 1,
        clustered: 1,
        internal: c,
        tile_comp: 1,
        tile_type: 1,
        min_zoom: 0,
        max_zoom: 0,
        min_lon: 0,
        min_lat: 0,
        max_lon: 0,
        max_lat: 0,
        center_zoom: 0,
        center_lon: 0,
        center_lat: 0,
    };
    let mut out = h.encode().to_vec();
    out.extend_from_slice(&rootb);
    out.extend_from_slice(&meta);
    out.extend_from_slice(&leaf_sec);
    out.extend_from_slice(&[0x77; 64]);
    out
}

fn check_crafted(c: &Crafted) -> CaseResult {
    let r = judge(&c.job).map_err(|mut f| {
        f.msg = format!("[{}] {}", c.name, f.msg);
        f
    })?;
    let excluded = r.labels.contains(&"excluded-over-budget");
    Ok(Meta::new(!excluded).label(excluded, "excluded-over-budget").label(!excluded, "crafted-hazard"))
}

// ---- generator 2: exhaustive prefixes and single-byte substitutions --------------------------

pub fn small_bases() -> Vec<(String, Vec<u8>)> {
    let mut v = Vec::new();
    for c in 1..=4u8 {
        for depth in [1u8, 2] {
            let l = super::c13::small_layout(c, depth);
            v.push((format!("spec-writer/{}/depth{depth}", codec::name(c)), writer::build(&l).bytes));
        }
        // library-written
        let lg = crate::model::logical::large(6, 11 + u64::from(c), c);
        if let Ok(b) = super::c01::write_logical(&lg, false) {
            v.push((format!("library-written/{}", codec::name(c)), b));
        }
    }
    v
}

const SUBST: usize = 7;

fn subst(b: u8, k: usize) -> u8 {
    match k {
        0 => 0x00,
        1 => 0x01,
        2 => 0x7f,
        3 => 0x80,
        4 => 0xff,
        5 => b ^ 0x01,
        _ => b ^ 0x80,
    }
}

// ---- generator 3: structure-aware mutation ---------------------------------------------------

#[derive(Clone, Debug, Serialize, Deserialize)]
pub struct MutCase {
    pub l: Layout,
    pub m: Mutations,
    /// also feed each mutated single directory to the directory readers
    pub as_dirs: bool,
}

pub fn boundary() -> impl Strategy<Value = MutVal> {
    prop_oneof![
        6 => prop_oneof![Just(0u64), Just(1), Just(127), Just(128), Just((1u64 << 32) - 1), Just(1u64 << 32), Just(1u64 << 62), Just(1u64 << 63), Just(u64::MAX), Just(u64::MAX - 1), Just((1u64 << 21) + 1), Just(1u64 << 35)].prop_map(MutVal::Abs),
        2 => (-2i8..=2).prop_map(MutVal::Rel),
        2 => (-2i8..=2).prop_map(MutVal::Remaining),
        1 => any::<u64>().prop_map(MutVal::Abs),
    ]
}

pub fn mutations() -> impl Strategy<Value = Mutations> {
    let dir = proptest::collection::vec((prop_oneof![3 => Just(0u16), 2 => 0u16..6, 1 => any::<u16>()], any::<u16>(), boundary()), 0..4);
    let header = proptest::collection::vec((0u8..11, boundary()), 0..3);
    let bm = prop_oneof![any::<u16>().prop_map(ByteMut::Truncate), (any::<u16>(), any::<u16>(), 1u16..64).prop_map(|(a, b, c)| ByteMut::Splice(a, b, c)), (any::<u16>(), any::<u8>()).prop_map(|(a, b)| ByteMut::Set(a, b)), (0u8..4, 0u8..4).prop_map(|(a, b)| ByteMut::SwapSections(a, b))];
    let bytes = proptest::collection::vec(bm, 0..2);
    (dir, header, bytes).prop_map(|(dir, header, bytes)| Mutations { dir, header, bytes }).prop_filter("at least one mutation", |m| !(m.dir.is_empty() && m.header.is_empty() && m.bytes.is_empty()))
}

fn check_mut(c: &MutCase) -> CaseResult {
    let (b, applied) = writer::build_with(&c.l, &c.m);
    let parses = SHeader::decode(&b.bytes).is_ok();
    let job = Job { mode: 0, mask: battery::MASK_ARCHIVE, bytes: b.bytes.clone() };
    let r = judge(&job)?;
    let excluded = r.labels.contains(&"excluded-over-budget");
    if c.as_dirs {
        for d in b.dirs.iter().take(3) {
            let mode = c.l.internal + 1;
            judge(&Job { mode, mask: battery::default_mask(mode), bytes: d.blob.clone() })?;
        }
    }
    Ok(Meta::new(applied > 0 && parses && !excluded)
        .label(excluded, "excluded-over-budget")
        .label(!c.m.dir.is_empty(), "varint-field-mutation")
        .label(!c.m.header.is_empty(), "header-field-mutation")
        .label(!c.m.bytes.is_empty(), "byte-level-mutation")
        .label(b.facts.depth >= 2, "with-leaves")
        .label(true, super::c01::codec_label(c.l.internal)))
}

pub fn mut_strategy(max_entries: usize) -> impl Strategy<Value = MutCase> {
    (layout::layout(LGen { max_entries, big_runs: false }), mutations(), prop_oneof![3 => Just(false), 1 => Just(true)]).prop_map(|(l, m, as_dirs)| MutCase { l, m, as_dirs })
}

// ---- driver ---------------------------------------------------------------------------------

#[derive(Clone, Debug, Serialize, Deserialize)]
pub struct ByteCase {
    pub base: String,
    pub kind: String,
    pub job: Job,
}

pub fn run(ctx: &Ctx) {
    ctx.rec.set_rule(
        "all inputs are executed in sandboxed worker processes (8 GiB address space, 16 MiB stack, per-case timeout) so that aborts, failed allocations and stack overflows are \
         observed as process death. (1) crafted corpus: one input per hazard class named in the property (entry counts 2^27..2^64-1, id sums / offset+length / run expansion that \
         overflow, zero first offset, header offsets and lengths near 2^64, leaf pointers forming 1/2/3-cycles, chains of 10..10^5 leaves (including lengths just inside and just beyond the depth the library accepts), truncated and over-long varints, \
         truncated codec streams, decompression bombs) x 4 codecs, as single directory and as archive; (2) every prefix and every single-byte substitution from {00,01,7f,80,ff,b^01,b^80} \
         of 12 small valid archives; (3) proptest structure-aware mutation: <= 4 varint fields of chosen directories and header fields replaced by boundary values (before re-compression, \
         pointers re-computed), splices, truncations, section swaps. API battery: Header / Directory / PMTiles readers, partial opens, get_tile(_by_id), to_writer, read_directories, \
         decompress_all, zxy and the async twins. Oracle: every call returns. Inputs whose declared work exceeds 2^21 tiles / 10^4 directory visits / 64 MiB decompressed (reference \
         walker) are skipped and counted. Non-trivial: a mutated input that still has a parseable header and differs from its base, or a crafted hazard; distinct by digest.",
    );
    ctx.rec.assume("a per-case timeout or a worker infrastructure error is reported as inconclusive (exit 2), never as a violation");
    if std::env::var("VERIF_C08_ONLY_FUZZ").is_ok() {
        fuzz_stage(ctx); // debugging aid
        return;
    }
    // (1)
    let corpus = crafted_corpus();
    run_list(ctx, "crafted-hazards", &corpus, check_crafted);
    // (2)
    let bases = small_bases();
    let nb = ctx.tier.pick(8usize, bases.len());
    let mut jobs: Vec<ByteCase> = Vec::new();
    for (name, bytes) in bases.iter().take(nb) {
        for cut in 0..bytes.len() {
            jobs.push(ByteCase { base: name.clone(), kind: format!("prefix-{cut}"), job: Job { mode: 0, mask: battery::MASK_ARCHIVE, bytes: bytes[..cut].to_vec() } });
        }
        for pos in 0..bytes.len() {
            for k in 0..SUBST {
                let v = subst(bytes[pos], k);
                if v == bytes[pos] {
                    continue;
                }
                let mut b = bytes.clone();
                b[pos] = v;
                jobs.push(ByteCase { base: name.clone(), kind: format!("byte-{pos}={v:#04x}"), job: Job { mode: 0, mask: battery::MASK_ARCHIVE, bytes: b } });
            }
        }
    }
    run_list(ctx, "every-prefix-and-byte-substitution", &jobs, |c| {
        let r = judge(&c.job).map_err(|mut f| {
            f.msg = format!("[{} {}] {}", c.base, c.kind, f.msg);
            f
        })?;
        let ex = r.labels.contains(&"excluded-over-budget");
        Ok(Meta::new(!ex && c.job.bytes.len() >= 127).label(ex, "excluded-over-budget").label(c.kind.starts_with("prefix"), "prefix").label(c.kind.starts_with("byte"), "byte-substitution"))
    });
    // (3)
    run_proptest(ctx, "structure-aware-mutation", PtCfg { lanes: ctx.lanes, cases: ctx.tier.pick(1500, 40_000), max_shrink: 48 }, || mut_strategy(ctx.tier.pick(120, 600)), check_mut);
    if ctx.tier == crate::engine::Tier::Thorough {
        fuzz_stage(ctx);
    }
    // timeouts / worker problems are infrastructure
    for c in ["crafted-hazard", "prefix", "byte-substitution", "varint-field-mutation", "header-field-mutation", "byte-level-mutation", "with-leaves"] {
        ctx.rec.floor(c, 20);
    }
}

/// Thorough tier only: coverage-guided campaigns (cargo-fuzz / libFuzzer, nightly toolchain, ASan) on four
/// targets. Campaigns are bounded by wall-clock (fork mode), so they only ever *add* findings: every saved
/// artifact is re-executed through the sandboxed worker and counts only if it fails there.
fn fuzz_stage(ctx: &Ctx) {
    use std::process::Command;
    let t0 = std::time::Instant::now();
    let fuzz_dir = ctx.verif_dir.join("fuzz");
    let work = ctx.verif_dir.join("work").join(format!("fuzz-{}", std::process::id()));
    let corpus = work.join("corpus");
    let arts = work.join("artifacts");
    if write_fuzz_corpus(&corpus).is_err() {
        ctx.rec.infra("libFuzzer stage: cannot write the seed corpus");
        return;
    }
    let secs: u64 = std::env::var("VERIF_FUZZ_SECS").ok().and_then(|s| s.parse().ok()).unwrap_or(300);
    let build = Command::new("cargo").args(["+nightly", "fuzz", "build", "--fuzz-dir"]).arg(&fuzz_dir).env("CARGO_NET_OFFLINE", "true").output();
    match build {
        Ok(o) if o.status.success() => {}
        Ok(o) => {
            ctx.rec.infra(&format!("libFuzzer stage: `cargo +nightly fuzz build` failed: {}", String::from_utf8_lossy(&o.stderr).lines().rev().take(5).collect::<Vec<_>>().join(" | ")));
            return;
        }
        Err(e) => {
            ctx.rec.infra(&format!("libFuzzer stage: cargo not runnable: {e}"));
            return;
        }
    }
    let mut total_execs = 0u64;
    let mut judged = 0u64;
    let mut acc = crate::engine::record::LaneAcc::default();
    for (target, max_len) in [("c08_struct", 512), ("c08_archive", 4096), ("c08_directory", 2048), ("c08_decompress", 4096)] {
        let adir = arts.join(target);
        let _ = std::fs::create_dir_all(&adir);
        let out = Command::new("cargo")
            .args(["+nightly", "fuzz", "run", "--fuzz-dir"])
            .arg(&fuzz_dir)
            .arg(target)
            .arg(corpus.join(target))
            .arg("--")
            .args([
                &format!("-max_total_time={secs}"),
                &format!("-seed={}", ctx.seed.max(1)),
                &format!("-max_len={max_len}"),
                "-len_control=0",
                &format!("-fork={}", ctx.lanes),
                "-ignore_crashes=1",
                "-ignore_ooms=1",
                "-ignore_timeouts=1",
                "-rss_limit_mb=6000",
                "-malloc_limit_mb=5000",
                "-timeout=25",
                &format!("-artifact_prefix={}/", adir.display()),
            ])
            .env("CARGO_NET_OFFLINE", "true")
            .output();
        let Ok(out) = out else {
            ctx.rec.infra(&format!("libFuzzer stage: could not run target {target}"));
            continue;
        };
        // fork mode prints "#N: cov: ... exec/s: ..." lines; the last N is the number of executions
        let log = String::from_utf8_lossy(&out.stderr).to_string();
        let execs = log.lines().rev().find_map(|l| l.strip_prefix('#').and_then(|r| r.split(':').next()).and_then(|n| n.trim().parse::<u64>().ok())).unwrap_or(0);
        total_execs += execs;
        acc.evals += execs;
        ctx.rec.observe(&format!("libfuzzer_{target}_executions"), serde_json::json!(execs));
        // judge artifacts through the sandbox
        let mut files: Vec<std::path::PathBuf> = std::fs::read_dir(&adir).map(|rd| rd.filter_map(Result::ok).map(|e| e.path()).collect()).unwrap_or_default();
        files.sort();
        ctx.rec.observe(&format!("libfuzzer_{target}_artifacts"), serde_json::json!(files.len()));
        for f in files.iter().take(200) {
            let Ok(data) = std::fs::read(f) else { continue };
            let Some(job) = crate::fuzz_entry::job_for(target, &data) else { continue };
            judged += 1;
            if let Err(fail) = judge_with(&job, false) {
                ctx.rec.violation(&ctx.verif_dir, ctx.prop, "fuzz-corpus", &fail, serde_json::to_value(&job).unwrap_or(Value::Null));
            }
        }
    }
    acc.nontrivial_undigested = 0;
    ctx.rec.merge("libfuzzer-campaigns", acc);
    ctx.rec.observe("libfuzzer_artifacts_rejudged_in_sandbox", serde_json::json!(judged));
    ctx.rec.sub_done(
        "libfuzzer-campaigns",
        false,
        t0.elapsed().as_secs_f64(),
        &format!("4 cargo-fuzz targets x {secs}s, fork={}, ASan; {total_execs} executions; artifacts count only if they fail again in the sandboxed worker", ctx.lanes),
    );
    let _ = std::fs::remove_dir_all(&work);
}

/// Write the libFuzzer seed corpora (crafted hazards and small valid archives) under `dir/<target>/`.
pub fn write_fuzz_corpus(dir: &std::path::Path) -> std::io::Result<usize> {
    let mut n = 0;
    for t in ["c08_archive", "c08_directory", "c08_decompress", "c08_struct"] {
        std::fs::create_dir_all(dir.join(t))?;
    }
    for (i, c) in crafted_corpus().iter().enumerate() {
        if c.job.bytes.len() > 65_536 {
            continue;
        }
        let (t, bytes): (&str, Vec<u8>) = match c.job.mode {
            0 | 6 => ("c08_archive", c.job.bytes.clone()),
            1..=5 => {
                let mut b = vec![c.job.mode - 1];
                b.extend_from_slice(&c.job.bytes);
                ("c08_directory", b)
            }
            7 => ("c08_decompress", c.job.bytes.clone()),
            _ => continue,
        };
        std::fs::write(dir.join(t).join(format!("crafted-{i:04}")), bytes)?;
        n += 1;
    }
    for (i, (_, b)) in small_bases().iter().enumerate() {
        std::fs::write(dir.join("c08_archive").join(format!("base-{i:02}")), b)?;
        n += 1;
    }
    for c in 1..=4u8 {
        let mut d = vec![c];
        d.extend_from_slice(&codec::compress(c, b"{\"some\":\"valid stream\",\"n\":[1,2,3,4,5,6,7,8,9]}", codec::Params::default()));
        std::fs::write(dir.join("c08_decompress").join(format!("valid-{c}")), d)?;
        n += 1;
    }
    let mut r = crate::engine::Sm(0xF022);
    for i in 0..64 {
        let mut b = vec![0u8; 24 + (i % 5) * 16];
        r.fill(&mut b);
        std::fs::write(dir.join("c08_struct").join(format!("seed-{i:02}")), b)?;
        n += 1;
    }
    Ok(n)
}

pub fn replay(sub: &str, case: &Value) -> Option<CaseResult> {
    match sub {
        "crafted-hazards" => {
            let c: Crafted = super::de(case)?;
            Some(judge_with(&c.job, true).map(|_| Meta::new(true)))
        }
        "every-prefix-and-byte-substitution" => {
            let c: ByteCase = super::de(case)?;
            Some(judge_with(&c.job, true).map(|_| Meta::new(true)))
        }
        "structure-aware-mutation" => Some(check_mut(&super::de(case)?)),
        "fuzz-corpus" | "job" => {
            let j: Job = super::de(case)?;
            Some(judge_with(&j, true).map(|_| Meta::new(true)))
        }
        _ => None,
    }
}
