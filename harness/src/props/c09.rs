//! C09 — header encoding is exactly 127 bytes and lossless in both directions.

use super::c12::header_strategy;
use crate::engine::{guarded, run_indexed, run_proptest, CaseResult, Ctx, Fail, Meta, PtCfg};
use crate::model::settings::{self, Fb};
use crate::spec::header::{self, SHeader};
use futures::executor::block_on;
use pmtiles2::Header;
use proptest::prelude::*;
use serde::{Deserialize, Serialize};
use serde_json::{json, Value};

fn lib_parse(bytes: &[u8], a: bool) -> Result<std::io::Result<(Header, u64)>, Fail> {
    if a {
        guarded("Header::from_async_reader", || {
            let mut r = futures::io::Cursor::new(bytes);
            block_on(Header::from_async_reader(&mut r)).map(|h| (h, r.position()))
        })
    } else {
        guarded("Header::from_reader", || {
            let mut r = std::io::Cursor::new(bytes);
            Header::from_reader(&mut r).map(|h| (h, r.position()))
        })
    }
}

fn lib_write(h: &Header, a: bool) -> Result<std::io::Result<Vec<u8>>, Fail> {
    if a {
        guarded("Header::to_async_writer", || {
            let mut o = futures::io::Cursor::new(Vec::new());
            block_on(h.to_async_writer(&mut o)).map(|()| o.into_inner())
        })
    } else {
        guarded("Header::to_writer", || {
            let mut o = std::io::Cursor::new(Vec::new());
            h.to_writer(&mut o).map(|()| o.into_inner())
        })
    }
}

fn fields_equal(h: &Header, s: &SHeader) -> Result<(), String> {
    let u = [
        (h.root_directory_offset, s.root_off, "root_directory_offset"),
        (h.root_directory_length, s.root_len, "root_directory_length"),
        (h.json_metadata_offset, s.meta_off, "json_metadata_offset"),
        (h.json_metadata_length, s.meta_len, "json_metadata_length"),
        (h.leaf_directories_offset, s.leaf_off, "leaf_directories_offset"),
        (h.leaf_directories_length, s.leaf_len, "leaf_directories_length"),
        (h.tile_data_offset, s.data_off, "tile_data_offset"),
        (h.tile_data_length, s.data_len, "tile_data_length"),
        (h.num_addressed_tiles, s.n_addressed, "num_addressed_tiles"),
        (h.num_tile_entries, s.n_entries, "num_tile_entries"),
        (h.num_tile_content, s.n_contents, "num_tile_content"),
    ];
    for (a, b, n) in u {
        if a != b {
            return Err(format!("{n}: parsed {a}, stored {b}"));
        }
    }
    if h.spec_version != 3 {
        return Err(format!("spec_version {}", h.spec_version));
    }
    if h.clustered != (s.clustered == 1) {
        return Err(format!("clustered {} vs byte {}", h.clustered, s.clustered));
    }
    if crate::spec::codec::from_lib(h.internal_compression) != s.internal || crate::spec::codec::from_lib(h.tile_compression) != s.tile_comp || settings::tile_type_code(h.tile_type) != s.tile_type {
        return Err("enum code differs".into());
    }
    if h.min_zoom != s.min_zoom || h.max_zoom != s.max_zoom || h.center_zoom != s.center_zoom {
        return Err("zoom differs".into());
    }
    let c = [
        (h.min_pos.longitude, s.min_lon),
        (h.min_pos.latitude, s.min_lat),
        (h.max_pos.longitude, s.max_lon),
        (h.max_pos.latitude, s.max_lat),
        (h.center_pos.longitude, s.center_lon),
        (h.center_pos.latitude, s.center_lat),
    ];
    for (got, stored) in c {
        let want = f64::from(stored) * 1e-7;
        if (got - want).abs() > 1e-12 + want.abs() * 1e-15 {
            return Err(format!("coordinate stored {stored} parsed as {got:e}"));
        }
    }
    Ok(())
}

/// valid header bytes: decode -> fields equal -> encode reproduces the bytes, exactly 127 of them
fn check_valid_bytes(bytes: &[u8; 127], both: bool) -> Result<(), Fail> {
    let s = SHeader::decode(bytes).map_err(|e| Fail::new("C09/INFRA/harness-self-check", e))?;
    for a in [false, true] {
        if a && !both {
            continue;
        }
        let k = if a { "async" } else { "sync" };
        let (h, pos) = lib_parse(bytes, a)?.map_err(|e| Fail::new(format!("C09/valid-header-rejected/{k}"), format!("{e}")))?;
        ensure!(pos == 127, format!("C09/reader-consumed-wrong-length/{k}"), "reader position after the header is {pos}");
        fields_equal(&h, &s).map_err(|m| Fail::new(format!("C09/parsed-field-differs/{k}"), m))?;
        for wa in [false, true] {
            if wa && !both {
                continue;
            }
            let wk = if wa { "async" } else { "sync" };
            let out = lib_write(&h, wa)?.map_err(|e| Fail::new(format!("C09/write-err/{wk}"), format!("{e}")))?;
            ensure!(out.len() == 127, format!("C09/serialised-length/{wk}"), "header serialises to {} bytes", out.len());
            if out[..] != bytes[..] {
                let at = out.iter().zip(bytes.iter()).position(|(x, y)| x != y).unwrap_or(0);
                let coord = (102..127).contains(&at) && at != 118;
                let cls = if coord { "coordinate" } else { "other" };
                let stored = if coord {
                    let o = if at < 118 { 102 + (at - 102) / 4 * 4 } else { 119 + (at - 119) / 4 * 4 };
                    format!(" stored coordinate {} written back as {}", i32::from_le_bytes(bytes[o..o + 4].try_into().unwrap()), i32::from_le_bytes(out[o..o + 4].try_into().unwrap()))
                } else {
                    String::new()
                };
                fail!(format!("C09/decode-encode-differs/{cls}/{wk}"), "parse -> serialise changes byte {at}:{stored}");
            }
        }
    }
    Ok(())
}

fn base_header() -> SHeader {
    SHeader {
        root_off: 127,
        root_len: 300,
        meta_off: 427,
        meta_len: 50,
        leaf_off: 477,
        leaf_len: 0,
        data_off: 477,
        data_len: 1000,
        n_addressed: 10,
        n_entries: 9,
        n_contents: 8,
        clustered: 1,
        internal: 2,
        tile_comp: 2,
        tile_type: 1,
        min_zoom: 0,
        max_zoom: 14,
        min_lon: 0,
        min_lat: 0,
        max_lon: 0,
        max_lat: 0,
        center_zoom: 7,
        center_lon: 0,
        center_lat: 0,
    }
}

fn check_stored(v: i32) -> CaseResult {
    let mut s = base_header();
    s.min_lon = v;
    s.min_lat = v;
    s.max_lon = v;
    s.max_lat = v;
    s.center_lon = v;
    s.center_lat = v;
    check_valid_bytes(&s.encode(), false)?;
    Ok(Meta::new(v % 10 != 0))
}

#[derive(Clone, Debug, Serialize, Deserialize)]
pub struct DegCase {
    pub coords: [Fb; 6],
    pub asyncw: bool,
}

fn check_degrees(c: &DegCase) -> CaseResult {
    let mut h = Header::default();
    h.min_pos.longitude = c.coords[0].f();
    h.min_pos.latitude = c.coords[1].f();
    h.max_pos.longitude = c.coords[2].f();
    h.max_pos.latitude = c.coords[3].f();
    h.center_pos.longitude = c.coords[4].f();
    h.center_pos.latitude = c.coords[5].f();
    let k = if c.asyncw { "async" } else { "sync" };
    let out = lib_write(&h, c.asyncw)?.map_err(|e| Fail::new(format!("C09/write-err/{k}"), format!("{e}")))?;
    ensure!(out.len() == 127, format!("C09/serialised-length/{k}"), "header serialises to {} bytes", out.len());
    let s = SHeader::decode(&out).map_err(|e| Fail::new("C09/serialised-header-invalid", e))?;
    let stored = [s.min_lon, s.min_lat, s.max_lon, s.max_lat, s.center_lon, s.center_lat];
    let mut tie = false;
    for i in 0..6 {
        let ok = header::nearest_e7(c.coords[i].f());
        tie |= ok.len() > 1;
        ensure!(ok.contains(&i64::from(stored[i])), "C09/degrees-not-stored-as-nearest", "coordinate {:e} stored as {}, nearest multiple(s) of 1e-7: {:?}", c.coords[i].f(), stored[i], ok);
    }
    // and it parses back to equal field values
    let (h2, _) = lib_parse(&out, !c.asyncw)?.map_err(|e| Fail::new("C09/valid-header-rejected/own-output", format!("{e}")))?;
    fields_equal(&h2, &s).map_err(|m| Fail::new("C09/parsed-field-differs/own-output", m))?;
    Ok(Meta::new(true).label(tie, "half-step-tie").label(c.coords.iter().any(|v| v.f() < 0.0), "negative-degrees"))
}

fn check_fields(s: &SHeader) -> CaseResult {
    check_valid_bytes(&s.encode(), true)?;
    let boundary = [s.root_off, s.root_len, s.meta_off, s.data_len, s.n_addressed].iter().any(|v| *v == 0 || *v == u64::MAX || *v == 1 << 63);
    Ok(Meta::new(true).label(boundary, "u64-field-at-boundary"))
}

/// byte `pos` of a valid header set to `val`; expectation from the independent decoder
fn check_byte(pos: usize, val: u8) -> CaseResult {
    let mut b = base_header().encode();
    b[pos] = val;
    let valid = SHeader::decode(&b);
    for a in [false, true] {
        let k = if a { "async" } else { "sync" };
        let r = lib_parse(&b, a).map_err(|f| Fail::new(format!("C09/panic-on-header-bytes/{k}"), f.msg))?;
        match (&valid, r) {
            (Ok(s), Ok((h, _))) => {
                if pos == 96 && val > 1 {
                    continue; // clustered byte outside {0,1}: not a valid header, only "no panic" is required
                }
                fields_equal(&h, s).map_err(|m| Fail::new(format!("C09/parsed-field-differs/{k}"), m))?;
            }
            (Ok(_), Err(e)) => {
                if pos == 96 && val > 1 {
                    continue;
                }
                fail!(format!("C09/valid-header-rejected/{k}"), "byte {pos} = {val}: {e}");
            }
            (Err(why), Ok(_)) => {
                let what = match pos {
                    0..=6 => "wrong-magic",
                    7 => "wrong-version",
                    97 | 98 => "unknown-compression-code",
                    99 => "unknown-tile-type-code",
                    _ => "other",
                };
                fail!(format!("C09/invalid-header-accepted/{what}/{k}"), "byte {pos} = {val} ({why}) is accepted");
            }
            (Err(_), Err(_)) => {}
        }
    }
    if valid.is_ok() && !(pos == 96 && val > 1) {
        check_valid_bytes(&b, false)?;
    }
    Ok(Meta::new(true).label(valid.is_err(), "invalid-code-or-magic"))
}

fn check_truncation(len: usize) -> CaseResult {
    let full = base_header().encode();
    let mut long = full.to_vec();
    long.extend_from_slice(&[0xAB; 300]);
    let input: &[u8] = if len <= 127 { &full[..len] } else { &long[..len] };
    for a in [false, true] {
        let k = if a { "async" } else { "sync" };
        let r = lib_parse(input, a).map_err(|f| Fail::new(format!("C09/panic-on-header-bytes/{k}"), f.msg))?;
        if len < 127 {
            ensure!(r.is_err(), format!("C09/truncated-header-accepted/{k}"), "{len} bytes are accepted as a header");
        } else {
            let (_, pos) = r.map_err(|e| Fail::new(format!("C09/valid-header-rejected/{k}"), format!("{len} input bytes: {e}")))?;
            ensure!(pos == 127, format!("C09/reader-consumed-wrong-length/{k}"), "input of {len} bytes: reader left at {pos}");
        }
    }
    let r = guarded("Header::from_bytes", || Header::from_bytes(input)).map_err(|f| Fail::new("C09/panic-on-header-bytes/from_bytes", f.msg))?;
    ensure!(r.is_ok() == (len >= 127), "C09/truncated-header-accepted/from_bytes", "Header::from_bytes on {len} bytes: {}", if r.is_ok() { "Ok" } else { "Err" });
    Ok(Meta::new(true).label(len < 127, "truncated").label(len > 127, "longer-input"))
}


/// A sequence of header writes on one thread, some of them into a sink that fails, is full, or with a header
/// that cannot be serialised; every write into a healthy sink must still produce exactly the 127 bytes.
#[derive(Clone, Debug, Serialize, Deserialize)]
pub struct SeqCase {
    pub steps: Vec<(SHeader, u8, u8)>,
}

fn check_sequence(c: &SeqCase) -> CaseResult {
    use crate::sio::{Sched, Stream};
    let mut after_failure = false;
    let mut failed_before = false;
    for (i, (s, sink, asyncw)) in c.steps.iter().enumerate() {
        let want = s.encode();
        let mut h = Header::from_bytes(&want[..]).map_err(|e| Fail::new("C09/valid-header-rejected/sequence", format!("{e}")))?;
        let a = asyncw % 2 == 1;
        // 0-4: healthy sink; 5: error at the first write; 6: error at a later operation; 7: sink of fewer than 127 bytes; 8: version 2 in the struct
        let sched = match sink % 9 {
            5 => Sched { fail_from: Some(0), ..Sched::none() },
            6 => Sched { caps: vec![1 + u32::from(*sink) % 100], cycle: true, fail_from: Some(1 + u64::from(*asyncw) % 3), ..Sched::none() },
            7 => Sched { capacity: Some(u64::from(*asyncw) % 127), ..Sched::none() },
            _ => Sched::none(),
        };
        if sink % 9 == 8 {
            h.spec_version = 2 + asyncw % 100;
        }
        let healthy = sink % 9 <= 4;
        let mut st = Stream::writer(sched);
        let r = if a { guarded("Header::to_async_writer", || block_on(h.to_async_writer(&mut st)))? } else { guarded("Header::to_writer", || h.to_writer(&mut st))? };
        if healthy {
            r.map_err(|e| Fail::new("C09/write-err/sequence", format!("step {i}: {e}")))?;
            let out = st.data();
            let kind = if a { "async" } else { "sync" };
            ensure!(out.len() == 127, format!("C09/serialised-length-not-127/sequence/{kind}"), "step {i} of the sequence (after {} failed write(s)): {} bytes written", c.steps[..i].iter().filter(|x| x.1 % 9 > 4).count(), out.len());
            ensure!(out[..] == want[..], format!("C09/serialised-bytes-differ/sequence/{kind}"), "step {i} of the sequence: bytes differ from the v3 layout");
            after_failure |= failed_before;
        } else {
            failed_before = true;
        }
    }
    Ok(Meta::new(after_failure).label(after_failure, "write-after-failed-write"))
}

pub fn run(ctx: &Ctx) {
    ctx.rec.set_rule(
        "stored coordinates: every i32 value (thorough: all 2^32; quick: every 257th plus boundaries) placed in all six coordinate slots, parse -> serialise must reproduce the 127 \
         bytes; degrees -> stored: f64 coordinates (multiples of 1e-7, half-step ties +-1ulp, negatives, +-0, range ends, uniform) must be stored as the nearest multiple (exact \
         rational oracle, ties either way); random / boundary values for the eleven u64 fields x valid enum codes, sync and async reader and writer in all pairings; every value \
         0-255 at every one of the first 8 bytes (magic, version) and the clustered / three enum bytes; every truncation length 0-126 and longer inputs (reader must stop at 127); \
         sequences of 1-5 header writes on one thread in which some writes go to a failing or full sink or carry an unserialisable version (every write into a healthy sink must \
         still emit exactly the 127 bytes). \
         Oracle: independent fixed-offset header codec. Non-trivial: stored coordinate not a multiple of 10, or a non-coordinate field under test; enumerations counted, random by digest.",
    );
    ctx.rec.assume("a clustered byte outside {0,1} is not a valid header; only 'no panic' is required of it");
    // 1. stored coordinate sweep
    match ctx.tier {
        crate::engine::Tier::Thorough => {
            run_indexed(ctx, "stored-coordinates-all-2^32", 1u64 << 32, true, 1 << 16, |i| check_stored(i as u32 as i32), |i| json!({"stored": i as u32 as i32}));
        }
        crate::engine::Tier::Quick => {
            let n = (1u64 << 32) / 257 + 1;
            run_indexed(ctx, "stored-coordinates-every-257th", n, false, 1 << 12, |i| check_stored((i * 257) as u32 as i32), |i| json!({"stored": (i * 257) as u32 as i32}));
        }
    }
    let mut bnd: Vec<i32> = vec![0, 1, -1, 9, -9, 10, -10, 11, -11, 20, -20, 21, -21, 1_800_000_000, -1_800_000_000, 900_000_000, -900_000_000, i32::MIN, i32::MAX, i32::MIN + 1, i32::MAX - 1];
    for k in 0..31 {
        bnd.extend([1i32 << k, -(1i32 << k), (1i32 << k) - 1, (1i32 << k) + 1]);
    }
    run_indexed(ctx, "stored-coordinates-boundaries", bnd.len() as u64, true, 8, |i| check_stored(bnd[i as usize]), |i| json!({"stored": bnd[i as usize]}));
    // 2. degrees
    run_proptest(
        ctx,
        "degrees-to-stored",
        PtCfg::new(ctx.lanes, ctx.tier.pick(3000, 60_000)),
        || ([settings::coord(180.0), settings::coord(90.0), settings::coord(180.0), settings::coord(90.0), settings::coord(180.0), settings::coord(90.0)], any::<bool>()).prop_map(|(coords, asyncw)| DegCase { coords, asyncw }),
        check_degrees,
    );
    // 3. other fields
    run_proptest(ctx, "field-values", PtCfg::new(ctx.lanes, ctx.tier.pick(2000, 40_000)), || header_strategy().prop_filter("valid codes", |h| h.internal <= 4), check_fields);
    // 4. every byte value at the magic/version/clustered/enum positions
    let positions: Vec<usize> = (0..8).chain([96, 97, 98, 99]).collect();
    run_indexed(ctx, "every-code-at-magic-version-enum-bytes", (positions.len() * 256) as u64, true, 16, |i| check_byte(positions[(i / 256) as usize], (i % 256) as u8), |i| json!({"pos": positions[(i / 256) as usize], "val": i % 256}));
    // 5. truncations and longer inputs
    run_indexed(ctx, "every-truncation-length", 140, true, 4, |i| check_truncation(i as usize), |i| json!({"len": i}));
    // 6. sequences of writes on one thread with failing ones in between
    run_proptest(
        ctx,
        "write-sequences-with-failures",
        PtCfg::new(ctx.lanes, ctx.tier.pick(300, 6000)),
        || proptest::collection::vec((header_strategy().prop_filter("valid codes", |h| h.internal <= 4), any::<u8>(), any::<u8>()), 1..6).prop_map(|steps| SeqCase { steps }),
        check_sequence,
    );
    for c in ["write-after-failed-write", "half-step-tie", "negative-degrees", "u64-field-at-boundary", "invalid-code-or-magic", "truncated", "longer-input"] {
        ctx.rec.floor(c, 10);
    }
}

pub fn replay(sub: &str, case: &Value) -> Option<CaseResult> {
    if sub.starts_with("stored-coordinates") {
        return Some(check_stored(case.get("stored")?.as_i64()? as i32));
    }
    match sub {
        "degrees-to-stored" => Some(check_degrees(&super::de(case)?)),
        "field-values" => Some(check_fields(&super::de(case)?)),
        "write-sequences-with-failures" => Some(check_sequence(&super::de(case)?)),
        "every-code-at-magic-version-enum-bytes" => Some(check_byte(case.get("pos")?.as_u64()? as usize, case.get("val")?.as_u64()? as u8)),
        "every-truncation-length" => Some(check_truncation(case.get("len")?.as_u64()? as usize)),
        _ => None,
    }
}
