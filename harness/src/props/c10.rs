//! C10 — deduplication and run-length encoding are exact and minimal.

use crate::engine::{guarded, run_proptest, CaseResult, Ctx, Fail, Meta, PtCfg};
use crate::model::content::ContentSpec;
use crate::model::history::{self, History, Init, Op};
use crate::model::layout::{self, LGen};
use crate::model::pick;
use crate::spec::reader::{self, Limits};
use crate::spec::SEntry;
use proptest::prelude::*;
use serde::{Deserialize, Serialize};
use serde_json::Value;
use std::collections::{BTreeMap, BTreeSet};

/// An engineered duplication pattern over consecutive ids, applied on top of an initial archive.
#[derive(Clone, Debug, Serialize, Deserialize)]
pub struct DupCase {
    pub init: Init,
    pub pool: Vec<ContentSpec>,
    pub internal: u8,
    /// blocks: (first id gap, pattern kind, length, content selectors a/b)
    pub blocks: Vec<(u64, u8, u32, u16, u16)>,
    pub first_id: u64,
    pub order_seed: u32,
    pub asyncw: bool,
    /// write, reopen and write again before checking (all tiles reader-backed in the second write)
    #[serde(default)]
    pub reopen: bool,
}

fn lim() -> Limits {
    Limits { max_tiles: 1 << 24, max_visits: 100_000, max_dir_bytes: 256 << 20, max_depth: 4 }
}

/// Independent greedy run-length encoding of the model: (id, run, len, content index)
fn rle(model: &BTreeMap<u64, Vec<u8>>) -> Vec<(u64, u32, u32, usize)> {
    let mut distinct: BTreeMap<&Vec<u8>, usize> = BTreeMap::new();
    let mut out: Vec<(u64, u32, u32, usize)> = Vec::new();
    for (id, c) in model {
        let next = distinct.len();
        let ci = *distinct.entry(c).or_insert(next);
        if let Some(last) = out.last_mut() {
            if last.3 == ci && last.0 + u64::from(last.1) == *id {
                last.1 += 1;
                continue;
            }
        }
        out.push((*id, 1, c.len() as u32, ci));
    }
    out
}

/// Archive-level clauses on written bytes.
pub fn check_written(bytes: &[u8], model: &BTreeMap<u64, Vec<u8>>, pfx: &str) -> Result<(bool, bool, bool), Fail> {
    let ar = reader::parse(bytes, &lim()).map_err(|r| Fail::new(format!("{pfx}/spec-reader-rejects"), format!("{} {}", r.tag, r.msg)))?;
    let want = rle(model);
    let distinct_total: u64 = {
        let mut seen: BTreeSet<&Vec<u8>> = BTreeSet::new();
        model.values().filter(|c| seen.insert(*c)).map(|c| c.len() as u64).sum()
    };
    ensure!(
        ar.header.data_len == distinct_total,
        format!("{pfx}/tile-data-length-not-sum-of-distinct"),
        "tile data section is {} bytes, the distinct contents add up to {}",
        ar.header.data_len,
        distinct_total
    );
    // entry list == greedy RLE of the model
    let got: Vec<SEntry> = ar.tile_entries.clone();
    if got.len() != want.len() || got.iter().zip(&want).any(|(g, w)| g.id != w.0 || g.run != w.1 || g.len != w.2) {
        let at = got.iter().zip(&want).position(|(g, w)| g.id != w.0 || g.run != w.1 || g.len != w.2).unwrap_or(got.len().min(want.len()));
        let cls = if got.len() > want.len() { "not-minimal" } else { "wrong" };
        fail!(format!("{pfx}/entries-not-greedy-rle/{cls}"), "{} entries written, the minimal run-length encoding has {}; first difference at entry {at}: {:?} vs {:?}", got.len(), want.len(), got.get(at), want.get(at));
    }
    // equal content <=> equal (offset,length); offsets are a bijection onto disjoint ranges
    let mut by_content: BTreeMap<usize, (u64, u32)> = BTreeMap::new();
    let mut by_off: BTreeMap<u64, usize> = BTreeMap::new();
    for (g, w) in got.iter().zip(&want) {
        if let Some(prev) = by_content.insert(w.3, (g.off, g.len)) {
            ensure!(prev == (g.off, g.len), format!("{pfx}/same-content-different-offset"), "identical content stored at offsets {} and {}", prev.0, g.off);
        }
        if let Some(prev) = by_off.insert(g.off, w.3) {
            ensure!(prev == w.3, format!("{pfx}/different-content-same-offset"), "two different contents share offset {}", g.off);
        }
    }
    let mut ranges: Vec<(u64, u32)> = by_content.values().copied().collect();
    ranges.sort_unstable();
    for w in ranges.windows(2) {
        ensure!(w[0].0 + u64::from(w[0].1) <= w[1].0, format!("{pfx}/content-ranges-overlap"), "content ranges {:?} and {:?} overlap", w[0], w[1]);
    }
    // bytes really are the contents
    for (g, w) in got.iter().zip(&want).take(500) {
        let o = (ar.header.data_off + g.off) as usize;
        let c = model.get(&w.0).map(Vec::as_slice).unwrap_or(&[]);
        ensure!(bytes.get(o..o + g.len as usize) == Some(c), format!("{pfx}/stored-bytes-differ"), "entry for id {} does not point at the tile's content", w.0);
    }
    // classification
    let mut adjacent_rep = false;
    let mut nonadjacent_rep = false;
    let mut seen: BTreeMap<usize, u64> = BTreeMap::new();
    for w in &want {
        if w.1 > 1 {
            adjacent_rep = true;
        }
        if seen.insert(w.3, w.0).is_some() {
            nonadjacent_rep = true;
        }
    }
    Ok((adjacent_rep, nonadjacent_rep, ar.has_leaves))
}


/// More than 2^16 distinct contents in one archive, then ids that repeat early ones (far away, and in a run).
#[derive(Clone, Debug, Serialize, Deserialize)]
pub struct ManyCase {
    pub n: u32,
    pub internal: u8,
    pub asyncw: bool,
    pub reopen: bool,
}

fn check_many(c: &ManyCase) -> CaseResult {
    let mut a = if c.asyncw { crate::libx::Arch::new_async() } else { crate::libx::Arch::new_sync() };
    let mut f = a.fields();
    f.internal = c.internal;
    a.set_fields(&f);
    let mut model: BTreeMap<u64, Vec<u8>> = BTreeMap::new();
    let content = |i: u32| -> Vec<u8> { (i ^ 0x5a5a_0000).to_le_bytes().to_vec() };
    let mut add = |a: &mut crate::libx::Arch, id: u64, v: Vec<u8>| -> Result<(), Fail> {
        guarded("add_tile", || a.add(id, v.clone()))?.map_err(|e| Fail::new("C10/harness", format!("add_tile: {e}")))?;
        model.insert(id, v);
        Ok(())
    };
    for i in 0..c.n {
        add(&mut a, 10 + 2 * u64::from(i), content(i))?;
    }
    // repeats of early, middle and late contents behind everything else: single ids and a run of three
    let far = 10 + 2 * u64::from(c.n) + 100;
    for (k, i) in [3u32, 10, c.n / 2, c.n - 1].iter().enumerate() {
        add(&mut a, far + 10 * k as u64, content(*i))?;
    }
    for k in 0..3u64 {
        add(&mut a, far + 1000 + k, content(7))?;
    }
    let mut bytes = guarded("to_writer", || a.write())?.map_err(|e| Fail::new("C10/write-err", format!("{e}")))?;
    if c.reopen {
        let b2 = bytes.clone();
        let again = guarded("open", || if c.asyncw { crate::libx::Arch::open_async(b2) } else { crate::libx::Arch::open_sync(b2) })?.map_err(|e| Fail::new("C10/open-err", format!("{e}")))?;
        bytes = guarded("to_writer", || again.write())?.map_err(|e| Fail::new("C10/write-err", format!("{e}")))?;
    }
    let (adj, nonadj, leaves) = check_written(&bytes, &model, "C10")?;
    Ok(Meta::new(adj && nonadj).label(c.n > 65_536, "distinct-contents>65536").label(c.reopen, "rewritten-after-reopen").label(leaves, "leaf-spill").label(nonadj, "non-adjacent-repetition"))
}


/// More than 2^16 ids share one in-memory content; then all but a few are removed or overwritten.
#[derive(Clone, Debug, Serialize, Deserialize)]
pub struct SharersCase {
    pub n: u32,
    pub keep: u32,
    pub asyncw: bool,
}

fn check_sharers(c: &SharersCase) -> CaseResult {
    let mut a = if c.asyncw { crate::libx::Arch::new_async() } else { crate::libx::Arch::new_sync() };
    let shared = b"shared content".to_vec();
    let mut model: BTreeMap<u64, Vec<u8>> = BTreeMap::new();
    for i in 0..u64::from(c.n) {
        guarded("add_tile", || a.add(100 + 2 * i, shared.clone()))?.map_err(|e| Fail::new("C10/harness", format!("add_tile: {e}")))?;
        model.insert(100 + 2 * i, shared.clone());
    }
    // remove (even i) or overwrite (odd i) all but the last `keep`
    for i in 0..u64::from(c.n - c.keep) {
        let id = 100 + 2 * i;
        if i % 2 == 0 {
            a.remove(id);
            model.remove(&id);
        } else {
            let other = (i as u32).to_le_bytes().to_vec();
            guarded("add_tile", || a.add(id, other.clone()))?.map_err(|e| Fail::new("C10/harness", format!("add_tile: {e}")))?;
            model.insert(id, other);
        }
    }
    let (ids, stored, refsets, refs) = a.store_counts();
    let distinct: BTreeSet<&Vec<u8>> = model.values().collect();
    ensure!(
        (ids, stored, refsets, refs) == (model.len(), distinct.len(), distinct.len(), model.len()),
        "C10/retention/counts-differ",
        "after {} sharers and {} removals / overwrites the builder holds (ids, contents, reference sets, references) = {:?}, the model implies {:?}",
        c.n,
        c.n - c.keep,
        (ids, stored, refsets, refs),
        (model.len(), distinct.len(), distinct.len(), model.len())
    );
    for i in (u64::from(c.n - c.keep)..u64::from(c.n)).take(5) {
        let id = 100 + 2 * i;
        let g = guarded("get_tile_by_id", || a.get(id))?.map_err(|e| Fail::new("C10/get-err", format!("{e}")))?;
        ensure!(g.as_deref() == Some(&shared[..]), "C10/retention/content-dropped", "tile {id} still refers to the shared content but the lookup returns {:?}", g.map(|v| v.len()));
    }
    let bytes = guarded("to_writer", || a.write())?.map_err(|e| Fail::new("C10/write-err", format!("{e}")))?;
    check_written(&bytes, &model, "C10")?;
    Ok(Meta::new(true).label(c.n > 65_535, "sharers>65535").label(true, "retention-shared-content").label(true, "retention-remove").label(true, "retention-replace"))
}

fn check_dup(c: &DupCase) -> CaseResult {
    let h = History { init: c.init.clone(), ids: vec![0], pool: c.pool.clone(), internal: c.internal, ops: vec![] };
    let mut r = history::start(&h, "C10")?;
    let had_backed = !r.model.is_empty();
    // expand the blocks into (id, content) assignments
    let mut adds: Vec<(u64, Vec<u8>)> = Vec::new();
    let mut id = c.first_id;
    let end = crate::spec::hilbert::domain_end();
    // a content equal to a reader-backed tile's content (mixture clause)
    let backed: Vec<Vec<u8>> = r.model.values().take(3).cloned().collect();
    for (gap, kind, len, a, b) in &c.blocks {
        id = id.saturating_add(*gap);
        let ca = r.contents[pick(*a, r.contents.len())].clone();
        let cb = r.contents[pick(*b, r.contents.len())].clone();
        for k in 0..u64::from(*len) {
            let _ = k;
            if id >= end - 1 {
                break;
            }
            let content = match kind % 5 {
                0 => ca.clone(),                                   // long run
                1 => if k % 2 == 0 { ca.clone() } else { cb.clone() }, // alternating A B A B
                2 => if k == u64::from(*len) / 2 { cb.clone() } else { ca.clone() }, // run broken by one differing tile
                3 => if backed.is_empty() { ca.clone() } else { backed[(k as usize) % backed.len()].clone() }, // equal to reader-backed content
                _ => r.contents[(k as usize + usize::from(*a)) % r.contents.len()].clone(), // rotating through the pool
            };
            adds.push((id, content));
            id += 1;
        }
    }
    // same content across zooms: copy the first content to the matching position of the next zoom block
    if let Some((fid, fc)) = adds.first().cloned() {
        if let Some((z, _, _)) = crate::spec::hilbert::id_to_zxy(fid) {
            if z < 30 {
                adds.push((crate::spec::hilbert::base(u32::from(z) + 2) as u64 + 1, fc));
            }
        }
    }
    // apply in a seeded order
    let mut order: Vec<usize> = (0..adds.len()).collect();
    let mut rng = crate::engine::Sm(u64::from(c.order_seed));
    for i in (1..order.len()).rev() {
        order.swap(i, rng.below(i as u64 + 1) as usize);
    }
    // every third archive changes threads: the second half of the tiles is added, and the archive written, on
    // other threads (the archive type is Send; a worker pool or an async executor moves it the same way)
    let other_thread = c.order_seed % 3 == 0;
    let half = if other_thread { order.len() / 2 } else { order.len() };
    for &i in &order[..half] {
        let (id, content) = adds[i].clone();
        guarded("add_tile", || r.arch.add(id, content.clone()))?.map_err(|e| Fail::new("C10/harness", format!("add_tile: {e}")))?;
        r.model.insert(id, content);
    }
    if half < order.len() {
        let mut moved = std::mem::replace(&mut r.arch, crate::libx::Arch::new_sync());
        let rest: Vec<(u64, Vec<u8>)> = order[half..].iter().map(|i| adds[*i].clone()).collect();
        let rest2 = rest.clone();
        let res = std::thread::scope(|sc| {
            sc.spawn(move || {
                let r = crate::engine::catch(|| -> std::io::Result<()> {
                    for (id, content) in rest2 {
                        moved.add(id, content)?;
                    }
                    Ok(())
                });
                (moved, r)
            })
            .join()
        });
        match res {
            Ok((m, Ok(Ok(())))) => r.arch = m,
            Ok((_, Ok(Err(e)))) => fail!("C10/harness", "add_tile on another thread: {e}"),
            Ok((_, Err(pi))) => fail!(format!("C10/panic/add_tile/{}", pi.site()), "{} at {}", pi.msg, pi.loc),
            Err(_) => fail!("C10/panic/add_tile/other-thread", "the adding thread panicked"),
        }
        for (id, content) in rest {
            r.model.insert(id, content);
        }
    }
    let a = std::mem::replace(&mut r.arch, crate::libx::Arch::new_sync());
    let mut bytes = if other_thread {
        let res = std::thread::scope(|sc| sc.spawn(move || crate::engine::catch(|| a.write())).join());
        match res {
            Ok(Ok(r)) => r,
            Ok(Err(pi)) => fail!(format!("C10/panic/to_writer/{}", pi.site()), "{} at {}", pi.msg, pi.loc),
            Err(_) => fail!("C10/panic/to_writer/other-thread", "the writing thread panicked"),
        }
    } else {
        guarded("to_writer", || a.write())?
    }
    .map_err(|e| Fail::new("C10/write-err", format!("{e}")))?;
    if c.reopen {
        let b2 = bytes.clone();
        let again = guarded("open", || if c.asyncw { crate::libx::Arch::open_async(b2) } else { crate::libx::Arch::open_sync(b2) })?.map_err(|e| Fail::new("C10/open-err", format!("{e}")))?;
        bytes = guarded("to_writer", || again.write())?.map_err(|e| Fail::new("C10/write-err", format!("{e}")))?;
    }
    let (adj, nonadj, leaves) = check_written(&bytes, &r.model, "C10")?;
    let longest = c.blocks.iter().filter(|b| b.1 % 5 == 0).map(|b| b.2).max().unwrap_or(0);
    Ok(Meta::new(adj && nonadj)
        .label(longest > 65_535, "run>65535")
        .label(c.reopen, "rewritten-after-reopen")
        .label(other_thread, "written-on-another-thread")
        .label(adj, "adjacent-repetition")
        .label(nonadj, "non-adjacent-repetition")
        .label(had_backed, "reader-backed-source")
        .label(matches!(c.init, Init::Foreign(..)), "foreign-undeduplicated-source")
        .label(leaves, "leaf-spill")
        .label(c.blocks.iter().any(|b| b.1 % 5 == 3) && had_backed, "mixture-memory-equals-backed"))
}

/// retention clause: after every step the hook's counts equal what the model implies
fn check_retention(h: &History) -> CaseResult {
    let mut r = history::start(h, "C10")?;
    let mut saw_shared = false;
    for (k, op) in h.ops.iter().enumerate() {
        history::step(&mut r, op, "C10").map_err(|mut f| {
            f.msg = format!("step {k} {:?}: {}", op, f.msg);
            f
        })?;
        let (ids, stored, refsets, refs) = r.arch.store_counts();
        let mem_contents: BTreeSet<&Vec<u8>> = r.mem.iter().filter_map(|i| r.model.get(i)).collect();
        let want = (r.model.len(), mem_contents.len(), mem_contents.len(), r.mem.len());
        if mem_contents.len() < r.mem.len() {
            saw_shared = true;
        }
        if (ids, stored, refsets, refs) != want {
            let cls = if stored > want.1 { "orphan-or-second-copy" } else if stored < want.1 { "content-dropped" } else { "reference-bookkeeping" };
            fail!(
                format!("C10/retention/{cls}"),
                "after step {k} {:?}: builder holds (ids {ids}, stored contents {stored}, reference sets {refsets}, references {refs}); the model implies {:?}",
                op,
                want
            );
        }
    }
    // and the written result obeys the archive-level clauses
    let a = std::mem::replace(&mut r.arch, crate::libx::Arch::new_sync());
    let bytes = guarded("to_writer", || a.write())?.map_err(|e| Fail::new("C10/write-err", format!("{e}")))?;
    check_written(&bytes, &r.model, "C10")?;
    let s = r.stats;
    Ok(Meta::new(saw_shared && (s.replace_bound || s.removes_hit > 0)).label(saw_shared, "retention-shared-content").label(s.removes_hit > 0, "retention-remove").label(s.replace_bound, "retention-replace").label(s.reopens > 0, "retention-reopen"))
}

fn dup_strategy(max_block: u16, foreign_entries: usize) -> impl Strategy<Value = DupCase> {
    let init = prop_oneof![
        3 => any::<bool>().prop_map(Init::Empty),
        3 => (layout::layout(LGen { max_entries: foreign_entries, big_runs: false }), any::<bool>()).prop_map(|(mut l, a)| {
            l.data_mode = 2; // every entry its own copy, runs not merged
            Init::Foreign(l, a)
        }),
    ];
    let block = (prop_oneof![6 => Just(0u64), 4 => 1u64..3, 2 => 3u64..50_000, 1 => (1u64..4, 0u64..3).prop_map(|(k, d)| (k << 32) + d), 1 => (0u64..3).prop_map(|d| (1u64 << 31) + d)], 0u8..5, 1u32..=u32::from(max_block), any::<u16>(), any::<u16>());
    (init, crate::model::content::pool(6, false, false), 1u8..=4, proptest::collection::vec(block, 1..6), prop_oneof![2 => 0u64..50, 1 => 0u64..(1 << 40)], any::<u32>(), any::<bool>())
        .prop_map(|(init, pool, internal, blocks, first_id, order_seed, asyncw)| DupCase { init, pool, internal, blocks, first_id, order_seed, asyncw, reopen: order_seed % 3 == 0 })
}

pub fn run(ctx: &Ctx) {
    ctx.rec.set_rule(
        "tile maps with engineered duplication (long runs, alternating A B A B, a run broken by one differing tile, contents equal to reader-backed tiles, pool rotation, the \
         same content in another zoom block) added in a seeded order on top of an empty archive or a foreign archive that stores every entry's content separately and does not \
         merge runs; plus edit histories (add/replace/remove/reopen) for the retention clause via the verif hook. Oracle: independent greedy run-length encoding of the model, \
         sum of distinct content lengths, bijection contents <-> disjoint ranges (parsed by the independent reader). Non-trivial: some content used by >= 2 ids with at least one \
         adjacent and one non-adjacent repetition (maps); shared in-memory content plus a remove/replace (histories); distinct by digest.",
    );
    ctx.rec.assume("retention clause observed through PMTiles::verif_store_counts (cargo feature verif, read-only)");
    run_proptest(ctx, "duplication-patterns", PtCfg::new(ctx.lanes, ctx.tier.pick(1000, 8000)), || dup_strategy(ctx.tier.pick(60, 400), 80), check_dup);
    // very long runs (run lengths are 32-bit): around 2^16 and beyond, in memory and reader-backed
    let long_sizes: Vec<u32> = ctx.tier.pick(vec![65_535u32, 65_536, 70_000], vec![65_535, 65_536, 70_000, 200_000, 1_000_000]);
    let longs: Vec<DupCase> = long_sizes
        .iter()
        .enumerate()
        .flat_map(|(k, n)| {
            [false, true].into_iter().map(move |reopen| DupCase {
                init: Init::Empty(k % 2 == 1),
                pool: vec![ContentSpec { kind: 2, len: 20, seed: 5 }, ContentSpec { kind: 0, len: 7, seed: 9 }],
                internal: 1 + (k % 4) as u8,
                blocks: vec![(0, 0, *n, 0, 0), (3, 1, 5, 0, 40_000), ((1u64 << 32) + 1, 0, 2, 0, 0), (1u64 << 32, 0, 1, 0, 0)],
                first_id: 1000,
                order_seed: 0,
                asyncw: k % 2 == 1,
                reopen,
            })
        })
        .collect();
    crate::engine::run_list(ctx, "runs-beyond-65535", &longs, check_dup);
    // more than 2^16 distinct contents (whatever indexes contents by a 16-bit quantity or caps its table)
    let many: Vec<ManyCase> = ctx.tier.pick(vec![65_537u32, 66_001], vec![65_536, 65_537, 66_001, 140_000, 300_000]).iter().enumerate().map(|(k, n)| ManyCase { n: *n, internal: 1 + (k % 4) as u8, asyncw: k % 2 == 1, reopen: k % 2 == 0 }).collect();
    crate::engine::run_list(ctx, "more-than-65536-distinct-contents", &many, check_many);
    // one content shared by more than 2^16 ids, most of them removed or overwritten again
    let sharers: Vec<SharersCase> = ctx.tier.pick(vec![(65_540u32, 3u32), (66_000, 300)], vec![(65_535, 1), (65_536, 1), (65_540, 3), (66_000, 300), (140_000, 70_000)]).iter().enumerate().map(|(k, (n, keep))| SharersCase { n: *n, keep: *keep, asyncw: k % 2 == 1 }).collect();
    crate::engine::run_list(ctx, "more-than-65535-sharers-of-one-content", &sharers, check_sharers);
    let (mo, mi) = ctx.tier.pick((50, 40), (200, 300));
    run_proptest(ctx, "retention-histories", PtCfg::new(ctx.lanes, ctx.tier.pick(1000, 8000)), || history::history(mo, mi, 60), check_retention);
    for c in ["adjacent-repetition", "non-adjacent-repetition", "reader-backed-source", "foreign-undeduplicated-source", "mixture-memory-equals-backed", "written-on-another-thread", "retention-shared-content", "retention-remove", "retention-replace", "retention-reopen"] {
        ctx.rec.floor(c, 20);
    }
}

pub fn replay(sub: &str, case: &Value) -> Option<CaseResult> {
    match sub {
        "duplication-patterns" | "runs-beyond-65535" => Some(check_dup(&super::de(case)?)),
        "retention-histories" => Some(check_retention(&super::de(case)?)),
        "more-than-65536-distinct-contents" => Some(check_many(&super::de(case)?)),
        "more-than-65535-sharers-of-one-content" => Some(check_sharers(&super::de(case)?)),
        _ => None,
    }
}

#[allow(dead_code)]
fn _u(_: Op) {}
