//! C11 — range-filtered opening equals full opening restricted to the range.

use crate::engine::{guarded, run_list, run_proptest, CaseResult, Ctx, Fail, Meta, PtCfg};
use crate::libx::Arch;
use crate::model::layout::{self, LGen};
use crate::model::logical::{self, Logical};
use crate::model::ranges::{self, RangeSpec};
use crate::spec::reader::{self, Limits};
use crate::spec::writer::{self, Layout};
use crate::spec::codec;
use futures::executor::block_on;
use proptest::prelude::*;
use serde::{Deserialize, Serialize};
use serde_json::Value;
use std::collections::BTreeMap;
use std::ops::Bound;

#[derive(Clone, Debug, Serialize, Deserialize)]
pub enum Src {
    Foreign(Layout),
    Written(Logical, bool),
}

#[derive(Clone, Debug, Serialize, Deserialize)]
pub struct Case {
    pub src: Src,
    pub ranges: Vec<RangeSpec>,
}

pub fn materialise(src: &Src) -> Result<(Vec<u8>, Vec<u64>), Fail> {
    match src {
        Src::Foreign(l) => {
            let b = writer::build(l);
            Ok((b.bytes, b.steer))
        }
        Src::Written(l, asyncw) => {
            let bytes = super::c01::write_logical(l, *asyncw).map_err(|f| Fail::new(f.sig.replace("C01/", "C11/"), f.msg))?;
            let lim = Limits { max_tiles: 1 << 24, max_visits: 100_000, max_dir_bytes: 256 << 20, max_depth: 4 };
            let ar = reader::parse(&bytes, &lim).map_err(|r| Fail::new("C11/harness", format!("written archive not parseable: {}", r.msg)))?;
            let mut steer: Vec<u64> = Vec::new();
            for d in &ar.dirs {
                if let Some(e) = d.entries.first() {
                    steer.push(e.id);
                }
                for e in d.entries.iter().take(50) {
                    steer.push(e.id);
                    steer.push(e.id + u64::from(e.run.max(1)) - 1);
                }
            }
            steer.sort_unstable();
            steer.dedup();
            Ok((bytes, steer))
        }
    }
}

fn bname(b: &(Bound<u64>, Bound<u64>)) -> String {
    let lo = match b.0 {
        Bound::Unbounded => "..".to_string(),
        Bound::Included(v) => format!("[{v}"),
        Bound::Excluded(v) => format!("({v}"),
    };
    let hi = match b.1 {
        Bound::Unbounded => "..".to_string(),
        Bound::Included(v) => format!("{v}]"),
        Bound::Excluded(v) => format!("{v})"),
    };
    format!("{lo},{hi}")
}

fn check(c: &Case) -> CaseResult {
    let (bytes, steer) = materialise(&c.src)?;
    let mut full = guarded("from_bytes", || Arch::open_sync(bytes.clone()))?.map_err(|e| Fail::new("C11/harness", format!("full open failed: {e}")))?;
    let all_ids = full.ids();
    let h = crate::spec::SHeader::decode(&bytes).map_err(|e| Fail::new("C11/harness", e))?;
    let mut cuts = 0u32;
    let mut on_boundary = 0u32;
    let mut kinds = [false; 9];
    for (ri, rs) in c.ranges.iter().enumerate() {
        let b = rs.bounds(&steer);
        let want: Vec<u64> = all_ids.iter().copied().filter(|i| ranges::contains(&b, *i)).collect();
        kinds[usize::from(rs.lo_kind % 3) * 3 + usize::from(rs.hi_kind % 3)] = true;
        if !want.is_empty() && want.len() < all_ids.len() {
            cuts += 1;
        }
        let eps = [match b.0 { Bound::Included(v) | Bound::Excluded(v) => Some(v), Bound::Unbounded => None }, match b.1 { Bound::Included(v) | Bound::Excluded(v) => Some(v), Bound::Unbounded => None }];
        if eps.iter().flatten().any(|v| *v == 0 || steer.binary_search(v).is_ok()) {
            on_boundary += 1;
        }
        let api = ri % 5;
        let rname = bname(&b);
        let apiname = ["from_bytes_partially", "from_reader_partially", "from_async_reader_partially", "read_directories", "read_directories_async"][api];
        let zero_excl = matches!(b.1, Bound::Excluded(0));
        let sigx = if zero_excl { "/end-excluded-0" } else { "" };
        if api <= 2 {
            let opened = match api {
                0 => guarded(apiname, || pmtiles2::PMTiles::from_bytes_partially(bytes.clone(), b).map(Arch::Bytes)),
                1 => guarded(apiname, || pmtiles2::PMTiles::from_reader_partially(std::io::Cursor::new(bytes.clone()), b).map(Arch::Bytes)),
                _ => guarded(apiname, || block_on(pmtiles2::PMTiles::from_async_reader_partially(futures::io::Cursor::new(bytes.clone()), b)).map(Arch::BytesA)),
            };
            let mut part = match opened {
                Err(f) => return Err(Fail::new(format!("C11/partial-open-panics{sigx}"), format!("{apiname} with range {rname}: {}", f.msg))),
                Ok(Err(e)) => fail!(format!("C11/partial-open-err{sigx}"), "{apiname} with range {rname} failed although the full open succeeds: {e}"),
                Ok(Ok(a)) => a,
            };
            let got = part.ids();
            if got != want {
                let missing: Vec<u64> = want.iter().filter(|i| got.binary_search(i).is_err()).take(4).copied().collect();
                let extra: Vec<u64> = got.iter().filter(|i| want.binary_search(i).is_err()).take(4).copied().collect();
                fail!("C11/ids-differ", "{apiname} range {rname}: {} ids, expected {}; missing {:?} extra {:?}", got.len(), want.len(), missing, extra);
            }
            ensure!(part.count() == want.len(), "C11/count-differs", "{apiname} range {rname}: num_tiles {} vs {}", part.count(), want.len());
            for id in want.iter().step_by(want.len() / 40 + 1) {
                let a = guarded("get_tile_by_id", || part.get(*id))?.map_err(|e| Fail::new("C11/get-err", format!("{e}")))?;
                let f = guarded("get_tile_by_id", || full.get(*id))?.map_err(|e| Fail::new("C11/get-err", format!("{e}")))?;
                ensure!(a == f && a.is_some(), "C11/tile-bytes-differ", "{apiname} range {rname}: tile {id} differs between partial and full open");
            }
            // an id just outside is absent
            for id in all_ids.iter().filter(|i| !ranges::contains(&b, **i)).take(5) {
                let a = guarded("get_tile_by_id", || part.get(*id))?.map_err(|e| Fail::new("C11/get-err", format!("{e}")))?;
                ensure!(a.is_none(), "C11/outside-range-present", "{apiname} range {rname}: tile {id} outside the range is present");
            }
        } else {
            let r = if api == 3 {
                guarded(apiname, || {
                    let mut r = std::io::Cursor::new(&bytes[..]);
                    pmtiles2::util::read_directories(&mut r, codec::to_lib(h.internal), (h.root_off, h.root_len), h.leaf_off, b)
                })
            } else {
                guarded(apiname, || {
                    let mut r = futures::io::Cursor::new(&bytes[..]);
                    block_on(pmtiles2::util::read_directories_async(&mut r, codec::to_lib(h.internal), (h.root_off, h.root_len), h.leaf_off, b))
                })
            };
            let map = match r {
                Err(f) => return Err(Fail::new(format!("C11/partial-open-panics{sigx}"), format!("{apiname} with range {rname}: {}", f.msg))),
                Ok(Err(e)) => fail!(format!("C11/partial-open-err{sigx}"), "{apiname} with range {rname} failed: {e}"),
                Ok(Ok(m)) => m,
            };
            let mut got: Vec<u64> = map.keys().copied().collect();
            got.sort_unstable();
            ensure!(got == want, "C11/ids-differ", "{apiname} range {rname}: {} ids, expected {}", got.len(), want.len());
        }
    }
    let has_leaves = h.leaf_len > 0;
    Ok(Meta::new(cuts > 0 || on_boundary > 0)
        .label(cuts > 0, "range-cuts")
        .label(on_boundary > 0, "endpoint-on-boundary")
        .label(has_leaves, "with-leaves")
        .label(!has_leaves, "root-only")
        .label(kinds.iter().all(|k| *k), "all-9-bound-kinds")
        .label(matches!(c.src, Src::Foreign(_)), "foreign")
        .label(matches!(c.src, Src::Written(..)), "library-written"))
}

fn strategy(max_entries: usize, nranges: usize) -> impl Strategy<Value = Case> {
    let src = prop_oneof![
        3 => layout::layout(LGen { max_entries, big_runs: false }).prop_map(Src::Foreign),
        2 => (logical::logical(logical::Gen { max_tiles: 300, allow_big: false, allow_adv: false, full_floats: false }), any::<bool>()).prop_map(|(l, a)| Src::Written(l, a)),
    ];
    (src, proptest::collection::vec(ranges::range(), nranges)).prop_map(|(src, mut ranges)| {
        // make sure every bound-kind combination occurs in each case
        for (k, r) in ranges.iter_mut().enumerate().take(9) {
            r.lo_kind = (k / 3) as u8;
            r.hi_kind = (k % 3) as u8;
        }
        Case { src, ranges }
    })
}

fn fixed_cases(ctx: &Ctx) -> Vec<Case> {
    // large library-written archives with leaves + a sweep of ranges incl. the hazards named in the property
    let mut v = Vec::new();
    let n = ctx.tier.pick(3, 12);
    for i in 0..n {
        let l = logical::large(20_000 + 3000 * i, 900 + i as u64, 1 + (i % 4) as u8);
        let mut ranges = Vec::new();
        let mut r = crate::engine::Sm(ctx.seed ^ (i as u64) << 8);
        for k in 0..40u32 {
            ranges.push(RangeSpec {
                lo_kind: (k % 3) as u8,
                hi_kind: ((k / 3) % 3) as u8,
                lo_mode: (k % 4 == 3) as u8,
                lo_sel: r.below(65536) as u16,
                lo_delta: (k % 3) as u8,
                lo_abs: [0, 1, u64::MAX, 5000][(k % 4) as usize],
                hi_mode: (k % 5 == 4) as u8,
                hi_sel: r.below(65536) as u16,
                hi_delta: ((k / 2) % 3) as u8,
                hi_abs: [0, 0, 1, u64::MAX, u64::MAX - 1][(k % 5) as usize],
            });
        }
        v.push(Case { src: Src::Written(l, i % 2 == 1), ranges });
    }
    // the named corner: every bound kind with endpoint 0 and u64::MAX on a tiny archive
    let tiny = logical::large(5, 7, 1);
    let mut ranges = Vec::new();
    for lo_kind in 0..3u8 {
        for hi_kind in 0..3u8 {
            for (lo_abs, hi_abs) in [(0u64, 0u64), (0, u64::MAX), (u64::MAX, 0), (1, 0), (0, 1), (u64::MAX, u64::MAX)] {
                ranges.push(RangeSpec { lo_kind, hi_kind, lo_mode: 1, lo_sel: 0, lo_delta: 0, lo_abs, hi_mode: 1, hi_sel: 0, hi_delta: 0, hi_abs });
            }
        }
    }
    v.push(Case { src: Src::Written(tiny, false), ranges });
    v
}

pub fn run(ctx: &Ctx) {
    ctx.rec.set_rule(
        "archives (foreign layouts of depth 1-3 and library-written recipes, plus fixed-seed large library-written archives with leaves) x ranges over all 9 bound-kind \
         combinations (each case carries all nine) with endpoints steered onto 0, 1, leaf first ids, run starts/ends +-1, u64::MAX(-1) and uniform values, inverted and empty \
         ranges included; APIs rotate over from_bytes_partially, from_reader_partially, from_async_reader_partially, util::read_directories(_async). Oracle: the full opening \
         filtered by an independently written contains(). Non-trivial: a range selects a proper non-empty subset, or an endpoint sits on 0 / a leaf first id / a run boundary; \
         distinct by digest of (archive recipe, ranges).",
    );
    let nr = ctx.tier.pick(20, 40);
    run_proptest(ctx, "ranges-on-archives", PtCfg::new(ctx.lanes, ctx.tier.pick(150, 3000)), || strategy(ctx.tier.pick(300, 2000), nr), check);
    let fx = fixed_cases(ctx);
    run_list(ctx, "ranges-on-large-archives", &fx, check);
    for c in ["range-cuts", "endpoint-on-boundary", "with-leaves", "foreign", "library-written", "all-9-bound-kinds"] {
        ctx.rec.floor(c, 20);
    }
}

pub fn replay(sub: &str, case: &Value) -> Option<CaseResult> {
    match sub {
        "ranges-on-archives" | "ranges-on-large-archives" => Some(check(&super::de(case)?)),
        _ => None,
    }
}

#[allow(dead_code)]
fn _unused(_: BTreeMap<u64, u64>) {}
