//! C12 — synchronous and asynchronous APIs are observationally equivalent.

use super::c13::{read_view, Counters};
use crate::engine::{guarded, run_list, run_proptest, CaseResult, Ctx, Fail, Meta, PtCfg};
use crate::libx::Arch;
use crate::model::entries::{self, EDelta};
use crate::model::layout::{self, LGen};
use crate::model::logical::{self, Gen, Logical};
use crate::model::ranges::{self, RangeSpec};
use crate::sio::Sched;
use crate::spec::writer::{self, Layout};
use crate::spec::{codec, SHeader};
use futures::executor::block_on;
use pmtiles2::util::WriteDirsOverflowStrategy;
use pmtiles2::{Header, PMTiles};
use proptest::prelude::*;
use serde::{Deserialize, Serialize};
use serde_json::Value;
use std::collections::BTreeMap;

#[derive(Clone, Debug, Serialize, Deserialize)]
pub enum Case {
    Foreign(Layout, Vec<RangeSpec>),
    Written(Logical, Vec<RangeSpec>),
    Entries(Vec<EDelta>, u8, Option<u32>),
    Header(SHeader),
}

fn open_ids(bytes: &[u8], b: (std::ops::Bound<u64>, std::ops::Bound<u64>), a: bool) -> Result<std::io::Result<(Vec<u64>, Vec<Option<Vec<u8>>>)>, Fail> {
    guarded(if a { "from_async_reader_partially" } else { "from_reader_partially" }, || {
        if a {
            let mut pm = block_on(PMTiles::from_async_reader_partially(futures::io::Cursor::new(bytes.to_vec()), b))?;
            let mut ids: Vec<u64> = pm.tile_ids().into_iter().copied().collect();
            ids.sort_unstable();
            let mut t = Vec::new();
            for id in ids.iter().step_by(ids.len() / 8 + 1) {
                t.push(block_on(pm.get_tile_by_id_async(*id))?);
            }
            Ok((ids, t))
        } else {
            let mut pm = PMTiles::from_bytes_partially(bytes.to_vec(), b)?;
            let mut ids: Vec<u64> = pm.tile_ids().into_iter().copied().collect();
            ids.sort_unstable();
            let mut t = Vec::new();
            for id in ids.iter().step_by(ids.len() / 8 + 1) {
                t.push(pm.get_tile_by_id(*id)?);
            }
            Ok((ids, t))
        }
    })
}

fn ranges_agree(bytes: &[u8], steer: &[u64], rs: &[RangeSpec]) -> Result<bool, Fail> {
    let mut cut = false;
    for r in rs {
        let b = r.bounds(steer);
        let s = open_ids(bytes, b, false)?;
        let a = open_ids(bytes, b, true)?;
        match (s, a) {
            (Ok(s), Ok(a)) => {
                ensure!(s == a, "C12/partial-open-differs", "range {:?}: sync open lists {} ids, async {} (or tile bytes differ)", b, s.0.len(), a.0.len());
                if !s.0.is_empty() {
                    cut = true;
                }
            }
            (Err(_), Err(_)) => {}
            (s, a) => fail!("C12/partial-open-differs", "range {:?}: sync open is {} but async open is {}", b, if s.is_ok() { "Ok" } else { "Err" }, if a.is_ok() { "Ok" } else { "Err" }),
        }
    }
    Ok(cut)
}

fn check_foreign(l: &Layout, rs: &[RangeSpec]) -> CaseResult {
    let b = writer::build(l);
    let mut c = Counters::default();
    let s = read_view(&b, &Sched::none(), false, &mut c).map_err(|f| Fail::new(f.sig.replace("C13/", "C12/sync-reader/"), f.msg))?;
    let a = read_view(&b, &Sched::none(), true, &mut c).map_err(|f| Fail::new(f.sig.replace("C13/", "C12/async-reader/"), f.msg))?;
    ensure!(s.header == a.header, "C12/readers-differ/Header", "Header::from_reader and from_async_reader return different values");
    ensure!(s.dir0 == a.dir0, "C12/readers-differ/Directory", "Directory::from_reader and from_async_reader return different entries");
    ensure!(s.map == a.map, "C12/readers-differ/read_directories", "read_directories and read_directories_async return different maps ({} vs {} ids)", s.map.len(), a.map.len());
    ensure!(s.ids == a.ids && s.fields == a.fields && s.tiles == a.tiles, "C12/readers-differ/PMTiles", "from_reader and from_async_reader open the archive differently");
    let cut = ranges_agree(&b.bytes, &b.steer, rs)?;
    // the opened archive written again by the sync and by the async writer (tiles stay in the backing reader)
    let rs_ = guarded("from_reader+to_writer", || -> std::io::Result<Vec<u8>> {
        let pm = PMTiles::from_reader(std::io::Cursor::new(b.bytes.clone()))?;
        let mut out = std::io::Cursor::new(Vec::new());
        pm.to_writer(&mut out)?;
        Ok(out.into_inner())
    })?;
    let ra_ = guarded("from_async_reader+to_async_writer", || -> std::io::Result<Vec<u8>> {
        let pm = block_on(PMTiles::from_async_reader(futures::io::Cursor::new(b.bytes.clone())))?;
        let mut out = futures::io::Cursor::new(Vec::new());
        block_on(pm.to_async_writer(&mut out))?;
        Ok(out.into_inner())
    })?;
    match (rs_, ra_) {
        (Ok(ws), Ok(wa)) => {
            if l.internal == 1 {
                if ws != wa {
                    let at = ws.iter().zip(&wa).position(|(x, y)| x != y).unwrap_or(ws.len().min(wa.len()));
                    fail!("C12/uncompressed-archives-differ/rewrite-of-opened", "internal compression none: re-written by the sync writer {} bytes, by the async writer {} bytes, first difference at {at}", ws.len(), wa.len());
                }
            } else if b.expected.values().map(|(_, n)| u64::from(*n)).sum::<u64>() <= 48 << 20 {
                let model: BTreeMap<u64, Vec<u8>> = b.expected.iter().map(|(k, (o, n))| (*k, b.bytes[*o as usize..*o as usize + *n as usize].to_vec())).collect();
                for (wname, bytes) in [("sync-writer", ws), ("async-writer", wa)] {
                    let mut a = guarded("open", || Arch::open_sync(bytes))?.map_err(|e| Fail::new(format!("C12/open-err/{wname}/rewrite-of-opened"), format!("{e}")))?;
                    super::c01::compare_tiles(&mut a, &model, None, 5, &format!("C12/{wname}/rewrite-of-opened"))?;
                }
            }
        }
        (Err(_), Err(_)) => {}
        (s, a) => fail!("C12/rewrite-of-opened-differs", "re-writing the opened archive: sync writer is {} but async writer is {}", if s.is_ok() { "Ok" } else { "Err" }, if a.is_ok() { "Ok" } else { "Err" }),
    }
    Ok(Meta::new(l.internal != 1 || b.facts.depth >= 2 || cut).label(true, "foreign-archive").label(b.facts.prefix_overlap, "same-offset-different-length").label(b.facts.depth >= 2, "with-leaves").label(cut, "range-cuts").label(true, super::c01::codec_label(l.internal)))
}

fn check_written(l: &Logical, rs: &[RangeSpec]) -> CaseResult {
    let model = l.map();
    let ws = super::c01::write_logical(l, false).map_err(|f| Fail::new(f.sig.replace("C01/", "C12/sync-writer/"), f.msg))?;
    let wa = super::c01::write_logical(l, true).map_err(|f| Fail::new(f.sig.replace("C01/", "C12/async-writer/"), f.msg))?;
    // both outputs read by both readers -> the same logical content
    for (wname, bytes) in [("sync-writer", &ws), ("async-writer", &wa)] {
        for ra in [false, true] {
            let rname = if ra { "async-reader" } else { "sync-reader" };
            let mut a = guarded("open", || if ra { Arch::open_async(bytes.clone()) } else { Arch::open_sync(bytes.clone()) })?
                .map_err(|e| Fail::new(format!("C12/open-err/{wname}/{rname}"), format!("{e}")))?;
            let pfx = format!("C12/{wname}/{rname}");
            super::c01::compare_tiles(&mut a, &model, Some(l), 3, &pfx)?;
            super::c01::compare_fields(&a, l, &pfx)?;
        }
    }
    // byte-identical wherever no codec is involved
    ensure!(ws[..127].len() == 127 && wa.len() >= 127, "C12/harness", "short output");
    let hs = SHeader::decode(&ws).map_err(|e| Fail::new("C12/harness", e))?;
    let ha = SHeader::decode(&wa).map_err(|e| Fail::new("C12/harness", e))?;
    if l.settings.internal == 1 {
        if ws != wa {
            let at = ws.iter().zip(&wa).position(|(x, y)| x != y).unwrap_or(ws.len().min(wa.len()));
            fail!("C12/uncompressed-archives-differ", "internal compression none: sync writer produced {} bytes, async writer {} bytes, first difference at {at}", ws.len(), wa.len());
        }
    } else {
        // settings part of the header and the tile data section are codec-free
        ensure!(ws[96..127] == wa[96..127], "C12/header-settings-differ", "headers written by sync and async writers differ in the settings bytes");
        ensure!(hs.n_addressed == ha.n_addressed && hs.n_entries == ha.n_entries && hs.n_contents == ha.n_contents && hs.data_len == ha.data_len, "C12/header-counters-differ", "counters / tile data length differ between sync and async writer");
        let ds = &ws[hs.data_off as usize..(hs.data_off + hs.data_len) as usize];
        let da = &wa[ha.data_off as usize..(ha.data_off + ha.data_len) as usize];
        ensure!(ds == da, "C12/tile-data-differ", "tile data sections written by sync and async writers differ");
    }
    let cut = ranges_agree(&ws, &model.keys().copied().collect::<Vec<_>>(), rs)? | ranges_agree(&wa, &model.keys().copied().collect::<Vec<_>>(), rs)?;
    let spill = hs.leaf_len > 0;
    Ok(Meta::new(l.settings.internal != 1 || spill || cut).label(true, "library-written").label(spill, "leaf-spill").label(cut, "range-cuts").label(true, super::c01::codec_label(l.settings.internal)))
}

fn check_entries(ds: &[EDelta], c: u8, start: Option<u32>) -> CaseResult {
    let es = entries::build(ds);
    let d = super::c05::to_lib(&es);
    let ws = guarded("Directory::to_writer", || super::c05::lib_write(&d, c, false))?.map_err(|e| Fail::new("C12/sync-writer/Directory", format!("{e}")))?;
    let wa = guarded("Directory::to_async_writer", || super::c05::lib_write(&d, c, true))?.map_err(|e| Fail::new("C12/async-writer/Directory", format!("{e}")))?;
    if c == 1 {
        ensure!(ws == wa, "C12/uncompressed-directories-differ", "uncompressed directory: sync {} bytes vs async {} bytes", ws.len(), wa.len());
    }
    for (wname, bytes) in [("sync-writer", &ws), ("async-writer", &wa)] {
        for ra in [false, true] {
            let got = guarded("Directory::from_reader", || super::c05::lib_read(bytes, c, ra))?.map_err(|e| Fail::new(format!("C12/readers-differ/Directory/{wname}"), format!("async={ra}: {e}")))?;
            ensure!(super::c05::from_lib(&got) == es, format!("C12/readers-differ/Directory/{wname}"), "directory written by the {wname} is read back differently (async reader: {ra})");
        }
    }
    // write_directories vs write_directories_async
    // write_directories takes *tile* entries (leaf pointers are what it produces), so pointer entries of the
    // generated list are dropped for this part
    let lib_entries: Vec<pmtiles2::Entry> = Vec::<pmtiles2::Entry>::from(d.clone()).into_iter().filter(|e| e.run_length > 0).collect();
    let strat = Some(WriteDirsOverflowStrategy::OnlyLeafPointers { start_size: start.map(|s| s as usize) });
    let lc = codec::to_lib(c);
    let mut os = std::io::Cursor::new(Vec::new());
    let ls = guarded("write_directories", || pmtiles2::util::write_directories(&mut os, &lib_entries, lc, strat))?.map_err(|e| Fail::new("C12/sync-writer/write_directories", format!("{e}")))?;
    let mut oa = futures::io::Cursor::new(Vec::new());
    let la = guarded("write_directories_async", || block_on(pmtiles2::util::write_directories_async(&mut oa, &lib_entries, lc, strat)))?.map_err(|e| Fail::new("C12/async-writer/write_directories", format!("{e}")))?;
    let (ps, pa) = (os.position(), oa.position());
    let (rs, ra) = (os.into_inner(), oa.into_inner());
    if c == 1 {
        ensure!(rs[..ps as usize] == ra[..pa as usize] && ls == la, "C12/uncompressed-write_directories-differ", "uncompressed write_directories: root {} vs {} bytes, leaves {} vs {} bytes", ps, pa, ls.len(), la.len());
    }
    // resolve both outputs with both readers (readers expand runs: keep the declared work bounded)
    let total_run: u64 = lib_entries.iter().map(|e| u64::from(e.run_length)).sum();
    if total_run > (1 << 20) {
        return Ok(Meta::new(c != 1).label(true, "entry-list").label(true, super::c01::codec_label(c)));
    }
    let mut maps: Vec<BTreeMap<u64, (u64, u32)>> = Vec::new();
    for (root, rlen, leaves) in [(&rs, ps, &ls), (&ra, pa, &la)] {
        let mut img = root[..rlen as usize].to_vec();
        let leaf_off = img.len() as u64;
        img.extend_from_slice(leaves);
        for asyncr in [false, true] {
            let m = if asyncr {
                guarded("read_directories_async", || block_on(pmtiles2::util::read_directories_async(&mut futures::io::Cursor::new(&img[..]), lc, (0, rlen), leaf_off, ..)))?
            } else {
                guarded("read_directories", || pmtiles2::util::read_directories(&mut std::io::Cursor::new(&img[..]), lc, (0, rlen), leaf_off, ..))?
            }
            .map_err(|e| Fail::new("C12/readers-differ/read_directories", format!("async={asyncr}: {e}")))?;
            maps.push(m.into_iter().map(|(k, v)| (k, (v.offset, v.length))).collect());
        }
    }
    ensure!(maps.windows(2).all(|w| w[0] == w[1]), "C12/write_directories-resolve-differently", "sync/async write_directories outputs resolve to different maps under sync/async readers");
    let spill = !ls.is_empty();
    Ok(Meta::new(c != 1 || spill).label(true, "entry-list").label(spill, "leaf-spill").label(true, super::c01::codec_label(c)))
}

fn check_header(h: &SHeader) -> CaseResult {
    let bytes = h.encode();
    let s = guarded("Header::from_bytes", || Header::from_bytes(&bytes[..]))?;
    let a = guarded("Header::from_async_reader", || block_on(Header::from_async_reader(&mut futures::io::Cursor::new(&bytes[..]))))?;
    match (s, a) {
        (Ok(s), Ok(a)) => {
            ensure!(format!("{s:?}") == format!("{a:?}"), "C12/readers-differ/Header", "sync and async header readers return different values");
            let mut os = std::io::Cursor::new(Vec::new());
            s.to_writer(&mut os).map_err(|e| Fail::new("C12/sync-writer/Header", format!("{e}")))?;
            let mut oa = futures::io::Cursor::new(Vec::new());
            block_on(s.to_async_writer(&mut oa)).map_err(|e| Fail::new("C12/async-writer/Header", format!("{e}")))?;
            ensure!(os.into_inner() == oa.into_inner(), "C12/header-bytes-differ", "Header::to_writer and to_async_writer produce different bytes");
        }
        (Err(_), Err(_)) => {}
        _ => fail!("C12/readers-differ/Header", "one header reader accepts the bytes, the other rejects them"),
    }
    Ok(Meta::new(true).label(true, "header"))
}

fn check(c: &Case) -> CaseResult {
    match c {
        Case::Foreign(l, rs) => check_foreign(l, rs),
        Case::Written(l, rs) => check_written(l, rs),
        Case::Entries(ds, c, st) => check_entries(ds, *c, *st),
        Case::Header(h) => check_header(h),
    }
}

pub fn header_strategy() -> impl Strategy<Value = SHeader> {
    let u = || prop_oneof![2 => any::<u64>(), 2 => 0u64..100_000, 1 => Just(0u64), 1 => Just(u64::MAX), 1 => Just(1u64 << 63)];
    (
        (u(), u(), u(), u(), u(), u()),
        (u(), u(), u(), u(), u()),
        (0u8..=1, 0u8..=4, 0u8..=4, 0u8..=5, any::<u8>(), any::<u8>(), any::<u8>()),
        proptest::array::uniform6(prop_oneof![3 => any::<i32>(), 1 => Just(21i32), 1 => Just(-21i32), 1 => Just(i32::MIN), 1 => Just(i32::MAX), 1 => Just(0i32), 2 => -1_800_000_000i32..=1_800_000_000]),
    )
        .prop_map(|((a, b, c, d, e, f), (g, h, i, j, k), (cl, ic, tc, tt, z0, z1, z2), co)| SHeader {
            root_off: a,
            root_len: b,
            meta_off: c,
            meta_len: d,
            leaf_off: e,
            leaf_len: f,
            data_off: g,
            data_len: h,
            n_addressed: i,
            n_entries: j,
            n_contents: k,
            clustered: cl,
            internal: ic,
            tile_comp: tc,
            tile_type: tt,
            min_zoom: z0,
            max_zoom: z1,
            min_lon: co[0],
            min_lat: co[1],
            max_lon: co[2],
            max_lat: co[3],
            center_zoom: z2,
            center_lon: co[4],
            center_lat: co[5],
        })
}

fn strategy(max_entries: usize) -> impl Strategy<Value = Case> {
    let rs = || proptest::collection::vec(ranges::range(), 0..4);
    prop_oneof![
        3 => (layout::layout(LGen { max_entries, big_runs: false }), rs()).prop_map(|(l, r)| Case::Foreign(l, r)),
        3 => (logical::logical(Gen { max_tiles: 200, allow_big: false, allow_adv: false, full_floats: true }), rs()).prop_map(|(l, r)| Case::Written(l, r)),
        2 => (entries::list(max_entries), 1u8..=4, proptest::option::of(1u32..5000)).prop_map(|(d, c, s)| Case::Entries(d, c, s)),
        1 => header_strategy().prop_map(Case::Header),
    ]
}

pub fn run(ctx: &Ctx) {
    ctx.rec.set_rule(
        "the valid inputs of C01/C03/C05/C06/C09 (logical archive recipes, foreign layouts, entry lists incl. forced leaf spill, headers) x 4 compressions x full and range-filtered \
         opens: async readers must return the same values as sync readers on the same bytes (Header, Directory, read_directories, PMTiles incl. lookups and partial opens); what the \
         async writers produce must be read by both readers to the same logical content as the sync writers' output, and be byte-identical where no codec is involved (whole file \
         for internal compression none; header settings, counters and tile data always; uncompressed directories and write_directories output). Non-trivial: compression != none, \
         leaf spill, or a range filter that selects something; distinct by digest.",
    );
    run_proptest(ctx, "sync-vs-async", PtCfg::new(ctx.lanes, ctx.tier.pick(500, 6000)), || strategy(ctx.tier.pick(300, 2000)), check);
    // entry lists big enough to spill, each codec
    let big: Vec<Case> = (0..ctx.tier.pick(8, 24))
        .map(|i| {
            let mut r = crate::engine::Sm(ctx.seed ^ (i as u64 + 1) * 7919);
            let ds = (0..6000 + 500 * i).map(|_| EDelta { gap: r.below(1 << 16), run: 1 + r.below(3) as u32, len: 1 + r.below(1 << 22) as u32, omode: 1, off: r.below(1 << 38) }).collect();
            Case::Entries(ds, 1 + (i % 4) as u8, [None, Some(1000), Some(64), Some(20_000)][(i / 4) % 4])
        })
        .chain((0..ctx.tier.pick(4, 12)).map(|i| Case::Written(logical::large(14_000 + 900 * i, 3100 + i as u64, 1 + (i % 4) as u8), vec![])))
        .collect();
    run_list(ctx, "sync-vs-async-large", &big, check);
    for c in ["foreign-archive", "library-written", "entry-list", "header", "leaf-spill", "range-cuts", "with-leaves", "internal-brotli", "internal-gzip", "internal-zstd", "internal-none"] {
        ctx.rec.floor(c, 8);
    }
}

pub fn replay(sub: &str, case: &Value) -> Option<CaseResult> {
    match sub {
        "sync-vs-async" | "sync-vs-async-large" => Some(check(&super::de(case)?)),
        _ => None,
    }
}
