//! C13 — results do not depend on how the stream fragments or delays I/O.

use crate::engine::{guarded, run_indexed, run_proptest, CaseResult, Ctx, Fail, Meta, PtCfg};
use crate::libx::{fields_of, Fields};
use crate::model::layout::{self, LGen};
use crate::sio::{Sched, Stream};
use crate::spec::codec;
use crate::spec::writer::{self, Built, Layout};
use crate::spec::SEntry;
use futures::executor::block_on;
use pmtiles2::util::WriteDirsOverflowStrategy;
use pmtiles2::{Directory, Header, PMTiles};
use proptest::prelude::*;
use serde::{Deserialize, Serialize};
use serde_json::{json, Value};
use std::collections::BTreeMap;

#[derive(Debug, PartialEq)]
pub struct ReadView {
    pub header: Vec<u8>,
    pub dir0: Vec<SEntry>,
    pub map: BTreeMap<u64, (u64, u32)>,
    pub ids: Vec<u64>,
    pub tiles: Vec<(u64, Option<Vec<u8>>)>,
    pub fields: Fields,
}

#[derive(Debug, PartialEq)]
pub struct WriteView {
    pub header: Vec<u8>,
    pub dir: Vec<u8>,
    pub wd_img: Vec<u8>,
    pub wd_leaf: Vec<u8>,
    pub wd_pos: u64,
    pub archive: Vec<u8>,
    pub archive_pos: u64,
}

#[derive(Default, Clone, Copy)]
pub struct Counters {
    pub shortened: u64,
    pub pendings: u64,
    pub closes: u32,
    pub writes_after_close: u64,
}

fn add(c: &mut Counters, s: &Stream) {
    s.with(|k| {
        c.shortened += k.shortened;
        c.pendings += k.pendings;
        c.closes += k.closes;
        c.writes_after_close += k.writes_after_close;
    });
}

fn io<T>(what: &str, kind: &str, r: std::io::Result<T>) -> Result<T, Fail> {
    r.map_err(|e| Fail::new(format!("C13/err-under-schedule/{what}/{kind}"), format!("{what} failed under the schedule: {e}")))
}

pub fn read_view(b: &Built, sched: &Sched, a: bool, cnt: &mut Counters) -> Result<ReadView, Fail> {
    let kind = if a { "async" } else { "sync" };
    let c = codec::to_lib(b.header.internal);
    let h = &b.header;
    // header
    let mut s = Stream::reader(b.bytes.clone(), sched.clone());
    let hd = io("Header::from_reader", kind, guarded("Header::from_reader", || if a { block_on(Header::from_async_reader(&mut s)) } else { Header::from_reader(&mut s) })?)?;
    ensure!(s.pos() == 127, format!("C13/header-consumed-wrong-length/{kind}"), "reader left at {} after the header", s.pos());
    add(cnt, &s);
    let mut hb = std::io::Cursor::new(Vec::new());
    hd.to_writer(&mut hb).map_err(|e| Fail::new("C13/harness", format!("{e}")))?;
    // single directory
    let blob = b.dirs[0].blob.clone();
    let len = blob.len() as u64;
    let mut s = Stream::reader(blob, sched.clone());
    let d = io("Directory::from_reader", kind, guarded("Directory::from_reader", || if a { block_on(Directory::from_async_reader(&mut s, len, c)) } else { Directory::from_reader(&mut s, len, c) })?)?;
    add(cnt, &s);
    // read_directories
    let mut s = Stream::reader(b.bytes.clone(), sched.clone());
    let m = io(
        "util::read_directories",
        kind,
        guarded("read_directories", || {
            if a {
                block_on(pmtiles2::util::read_directories_async(&mut s, c, (h.root_off, h.root_len), h.leaf_off, ..))
            } else {
                pmtiles2::util::read_directories(&mut s, c, (h.root_off, h.root_len), h.leaf_off, ..)
            }
        })?,
    )?;
    add(cnt, &s);
    // whole archive + lookups
    let s = Stream::reader(b.bytes.clone(), sched.clone());
    let s2 = s.clone();
    let probe: Vec<u64> = b.expected.keys().step_by(b.expected.len() / 6 + 1).copied().chain([0, u64::MAX]).collect();
    let (ids, tiles, fields) = if a {
        let mut pm = io("PMTiles::from_reader", kind, guarded("from_async_reader", || block_on(PMTiles::from_async_reader(s2)))?)?;
        let mut ids: Vec<u64> = pm.tile_ids().into_iter().copied().collect();
        ids.sort_unstable();
        let mut tiles = Vec::new();
        for id in &probe {
            tiles.push((*id, io("PMTiles::get_tile_by_id", kind, guarded("get_tile_by_id_async", || block_on(pm.get_tile_by_id_async(*id)))?)?));
        }
        (ids, tiles, fields_of(&pm))
    } else {
        let mut pm = io("PMTiles::from_reader", kind, guarded("from_reader", || PMTiles::from_reader(s2))?)?;
        let mut ids: Vec<u64> = pm.tile_ids().into_iter().copied().collect();
        ids.sort_unstable();
        let mut tiles = Vec::new();
        for id in &probe {
            tiles.push((*id, io("PMTiles::get_tile_by_id", kind, guarded("get_tile_by_id", || pm.get_tile_by_id(*id))?)?));
        }
        (ids, tiles, fields_of(&pm))
    };
    add(cnt, &s);
    Ok(ReadView { header: hb.into_inner(), dir0: super::c05::from_lib(&d), map: m.into_iter().map(|(k, v)| (k, (v.offset, v.length))).collect(), ids, tiles, fields })
}

pub fn write_view(b: &Built, sched: &Sched, a: bool, cnt: &mut Counters, spill_entries: &[pmtiles2::Entry]) -> Result<WriteView, Fail> {
    let kind = if a { "async" } else { "sync" };
    let c = codec::to_lib(b.header.internal);
    // header
    let hd = Header::from_bytes(&b.bytes[..127]).map_err(|e| Fail::new("C13/harness", format!("{e}")))?;
    let mut s = Stream::writer(sched.clone());
    io("Header::to_writer", kind, guarded("Header::to_writer", || if a { block_on(hd.to_async_writer(&mut s)) } else { hd.to_writer(&mut s) })?)?;
    add(cnt, &s);
    let header = s.data();
    // directory
    let entries: Vec<pmtiles2::Entry> = b.tile_entries.iter().map(|e| pmtiles2::Entry { tile_id: e.id, offset: e.off, length: e.len, run_length: e.run }).collect();
    let d = Directory::from(entries.clone());
    let mut s = Stream::writer(sched.clone());
    io("Directory::to_writer", kind, guarded("Directory::to_writer", || if a { block_on(d.to_async_writer(&mut s, c)) } else { d.to_writer(&mut s, c) })?)?;
    add(cnt, &s);
    let dir = s.data();
    // write_directories (forced spill when the entry list is the big one)
    let wd_entries: &[pmtiles2::Entry] = if spill_entries.is_empty() { &entries } else { spill_entries };
    let strat = Some(WriteDirsOverflowStrategy::OnlyLeafPointers { start_size: Some(700) });
    let mut s = Stream::writer(sched.clone());
    let wd_leaf = io(
        "util::write_directories",
        kind,
        guarded("write_directories", || if a { block_on(pmtiles2::util::write_directories_async(&mut s, wd_entries, c, strat)) } else { pmtiles2::util::write_directories(&mut s, wd_entries, c, strat) })?,
    )?;
    add(cnt, &s);
    let wd_img = s.data();
    let wd_pos = s.pos();
    // whole archive: reader-backed source plus one in-memory tile
    let mut s = Stream::writer(sched.clone());
    if a {
        let mut pm = block_on(PMTiles::from_async_reader(futures::io::Cursor::new(b.bytes.clone()))).map_err(|e| Fail::new("C13/harness", format!("{e}")))?;
        pm.add_tile(1, vec![9, 9, 9]).map_err(|e| Fail::new("C13/harness", format!("{e}")))?;
        io("PMTiles::to_writer", kind, guarded("to_async_writer", || block_on(pm.to_async_writer(&mut s)))?)?;
    } else {
        let mut pm = PMTiles::from_bytes(b.bytes.clone()).map_err(|e| Fail::new("C13/harness", format!("{e}")))?;
        pm.add_tile(1, vec![9, 9, 9]).map_err(|e| Fail::new("C13/harness", format!("{e}")))?;
        io("PMTiles::to_writer", kind, guarded("to_writer", || pm.to_writer(&mut s))?)?;
    }
    add(cnt, &s);
    Ok(WriteView { header, dir, wd_img, wd_leaf, wd_pos, archive: s.data(), archive_pos: s.pos() })
}

fn diff_read(a: &ReadView, b: &ReadView, kind: &str) -> Result<(), Fail> {
    ensure!(a.header == b.header, format!("C13/read-differs/Header::from_reader/{kind}"), "header parsed from the fragmented stream differs");
    ensure!(a.dir0 == b.dir0, format!("C13/read-differs/Directory::from_reader/{kind}"), "directory parsed from the fragmented stream differs ({} vs {} entries)", a.dir0.len(), b.dir0.len());
    ensure!(a.map == b.map, format!("C13/read-differs/util::read_directories/{kind}"), "read_directories result differs under the schedule");
    ensure!(a.ids == b.ids, format!("C13/read-differs/PMTiles::from_reader/{kind}"), "tile id listing differs under the schedule");
    ensure!(a.fields == b.fields, format!("C13/read-differs/PMTiles::from_reader/{kind}"), "metadata / settings differ under the schedule");
    for (x, y) in a.tiles.iter().zip(&b.tiles) {
        ensure!(x == y, format!("C13/read-differs/PMTiles::get_tile_by_id/{kind}"), "tile {} read through the fragmented stream differs ({:?} vs {:?} bytes)", x.0, x.1.as_ref().map(Vec::len), y.1.as_ref().map(Vec::len));
    }
    Ok(())
}

fn first_diff(a: &[u8], b: &[u8]) -> String {
    let at = a.iter().zip(b).position(|(x, y)| x != y).unwrap_or(a.len().min(b.len()));
    format!("{} vs {} bytes, first difference at {at}", a.len(), b.len())
}

fn diff_write(a: &WriteView, b: &WriteView, kind: &str) -> Result<(), Fail> {
    ensure!(a.header == b.header, format!("C13/write-differs/Header::to_writer/{kind}"), "header image differs: {}", first_diff(&a.header, &b.header));
    ensure!(a.dir == b.dir, format!("C13/write-differs/Directory::to_writer/{kind}"), "directory image differs: {}", first_diff(&a.dir, &b.dir));
    ensure!(a.wd_img == b.wd_img && a.wd_leaf == b.wd_leaf && a.wd_pos == b.wd_pos, format!("C13/write-differs/util::write_directories/{kind}"), "write_directories output differs: root {} / leaves {} / pos {} vs {}", first_diff(&a.wd_img, &b.wd_img), first_diff(&a.wd_leaf, &b.wd_leaf), a.wd_pos, b.wd_pos);
    ensure!(a.archive == b.archive && a.archive_pos == b.archive_pos, format!("C13/write-differs/PMTiles::to_writer/{kind}"), "archive image differs: {} (final position {} vs {})", first_diff(&a.archive, &b.archive), a.archive_pos, b.archive_pos);
    Ok(())
}

#[derive(Clone, Debug, Serialize, Deserialize)]
pub struct Case {
    pub l: Layout,
    pub sched: Sched,
    pub asyncio: bool,
    pub spill: bool,
}

fn spill_list(seed: u64) -> Vec<pmtiles2::Entry> {
    let mut r = crate::engine::Sm(seed);
    let mut id = 0u64;
    (0..7000).map(|_| {
        id += 1 + r.below(1 << 18);
        pmtiles2::Entry { tile_id: id, offset: r.below(1 << 38), length: 1 + r.below(1 << 22) as u32, run_length: 1 + (r.below(3) as u32) }
    }).collect()
}

pub fn check_layout(l: &Layout, sched: &Sched, a: bool, spill: bool) -> CaseResult {
    let b = writer::build(l);
    let kind = if a { "async" } else { "sync" };
    let sp = if spill { spill_list(u64::from(l.leaf_shuffle)) } else { Vec::new() };
    let mut c0 = Counters::default();
    let mut c1 = Counters::default();
    let base_r = read_view(&b, &Sched::none(), a, &mut c0).map_err(|f| Fail::new("C13/harness", format!("unscheduled baseline failed: {}", f.msg)))?;
    let got_r = read_view(&b, sched, a, &mut c1)?;
    diff_read(&base_r, &got_r, kind)?;
    let base_w = write_view(&b, &Sched::none(), a, &mut c0, &sp).map_err(|f| Fail::new("C13/harness", format!("unscheduled baseline failed: {}", f.msg)))?;
    let got_w = write_view(&b, sched, a, &mut c1, &sp)?;
    diff_write(&base_w, &got_w, kind)?;
    Ok(Meta::new(c1.shortened > 0 || c1.pendings > 0)
        .label(c1.shortened > 0, "short-transfers")
        .label(c1.pendings > 0, "pending-polls")
        .label(a, "async")
        .label(!a, "sync")
        .label(spill, "leaf-spill")
        .label(b.facts.depth >= 2, "archive-with-leaves")
        .label(true, super::c01::codec_label(l.internal)))
}

fn check(c: &Case) -> CaseResult {
    check_layout(&c.l, &c.sched, c.asyncio, c.spill)
}

// ---- large archives: leaf spill in PMTiles::to_writer, big tiles on the read side ---------------------------

#[derive(Clone, Debug, Serialize, Deserialize)]
pub struct BigCase {
    pub n: u32,
    pub seed: u64,
    pub internal: u8,
    pub sched: Sched,
    pub asyncio: bool,
    pub big_tile: u32,
}

fn write_with(l: &crate::model::Logical, a: bool, sched: &Sched, cnt: &mut Counters) -> Result<(Vec<u8>, u64), Fail> {
    let kind = if a { "async" } else { "sync" };
    let arch = l.build(a).map_err(|e| Fail::new("C13/harness", e))?;
    let mut s = Stream::writer(sched.clone());
    let r = guarded("to_writer", || match arch {
        crate::libx::Arch::New(pm) => pm.to_writer(&mut s),
        crate::libx::Arch::Bytes(pm) => pm.to_writer(&mut s),
        crate::libx::Arch::NewA(pm) => block_on(pm.to_async_writer(&mut s)),
        crate::libx::Arch::BytesA(pm) => block_on(pm.to_async_writer(&mut s)),
    })?;
    io("PMTiles::to_writer", kind, r)?;
    add(cnt, &s);
    Ok((s.data(), s.pos()))
}

fn check_big(c: &BigCase) -> CaseResult {
    let mut l = crate::model::logical::large(c.n as usize, c.seed, c.internal);
    if c.big_tile > 0 {
        // one really big tile (read in one piece by a correct reader, in chunks by an "optimised" one)
        l.pool[0] = crate::model::ContentSpec { kind: 0, len: c.big_tile, seed: 99 };
        l.tiles[0].1 = 0;
    }
    let kind = if c.asyncio { "async" } else { "sync" };
    let mut c0 = Counters::default();
    let mut c1 = Counters::default();
    let (base, bpos) = write_with(&l, c.asyncio, &Sched::none(), &mut c0).map_err(|f| Fail::new("C13/harness", format!("unscheduled baseline failed: {}", f.msg)))?;
    let (got, gpos) = write_with(&l, c.asyncio, &c.sched, &mut c1)?;
    ensure!(got == base && gpos == bpos, format!("C13/write-differs/PMTiles::to_writer/{kind}"), "large archive ({} tiles, leaf spill: {}): image differs under the schedule: {} (final position {gpos} vs {bpos})", c.n, super::c01::spilled(&base), first_diff(&got, &base));
    // read side: open through a scheduled stream and fetch tiles (incl. the big one)
    let model = l.map();
    let s = Stream::reader(base.clone(), c.sched.clone());
    let s2 = s.clone();
    let ids: Vec<u64> = model.keys().step_by(model.len() / 12 + 1).copied().chain([l.tiles[0].0]).collect();
    if c.asyncio {
        let mut pm = io("PMTiles::from_reader", kind, guarded("from_async_reader", || block_on(PMTiles::from_async_reader(s2)))?)?;
        for id in &ids {
            let t = io("PMTiles::get_tile_by_id", kind, guarded("get_tile_by_id_async", || block_on(pm.get_tile_by_id_async(*id)))?)?;
            ensure!(t.as_ref() == model.get(id), format!("C13/read-differs/PMTiles::get_tile_by_id/{kind}"), "tile {id} ({} bytes) read through the fragmented stream differs", model[id].len());
        }
    } else {
        let mut pm = io("PMTiles::from_reader", kind, guarded("from_reader", || PMTiles::from_reader(s2))?)?;
        for id in &ids {
            let t = io("PMTiles::get_tile_by_id", kind, guarded("get_tile_by_id", || pm.get_tile_by_id(*id))?)?;
            ensure!(t.as_ref() == model.get(id), format!("C13/read-differs/PMTiles::get_tile_by_id/{kind}"), "tile {id} ({} bytes) read through the fragmented stream differs", model[id].len());
        }
    }
    add(&mut c1, &s);
    Ok(Meta::new(c1.shortened > 0 || c1.pendings > 0)
        .label(c1.shortened > 0, "short-transfers")
        .label(c1.pendings > 0, "pending-polls")
        .label(super::c01::spilled(&base), "archive-write-with-leaf-spill")
        .label(c.big_tile > 65_536, "tile>64KiB")
        .label(c.asyncio, "async")
        .label(!c.asyncio, "sync"))
}

fn big_cases(ctx: &Ctx) -> Vec<BigCase> {
    let mut v = Vec::new();
    let scheds = [
        Sched::fixed_cap(1),
        Sched::fixed_cap(7),
        Sched::fixed_cap(1000),
        Sched::fixed_cap(4096),
        Sched::fixed_cap(65_536),
        Sched { caps: vec![3, 100_000, 1, 70_000, 9], cycle: true, pending: vec![true, false, true, true, false], pending_cycle: true, fail_from: None, fail_once_at: None, zero_write_from: None, capacity: None },
        Sched { caps: vec![16_384, 16_383, 1], cycle: true, pending: vec![], pending_cycle: false, fail_from: None, fail_once_at: None, zero_write_from: None, capacity: None },
    ];
    let n = ctx.tier.pick(1, 4);
    for rep in 0..n {
        for (k, sc) in scheds.iter().enumerate() {
            for asyncio in [false, true] {
                let internal = 1 + ((k + rep + usize::from(asyncio)) % 4) as u8;
                // cap 1 on a large uncompressed archive means millions of calls: keep that one small
                let tiles = if k == 0 { 5_000 } else { 14_000 + 1000 * rep as u32 };
                let tiles = if k == 0 && internal == 1 { 4_500 } else { tiles };
                v.push(BigCase { n: tiles, seed: ctx.seed + (k * 10 + rep) as u64, internal, sched: sc.clone(), asyncio, big_tile: [0u32, 70_001, 200_000, 65_537, 16_385, 300_001, 131_073][(k + rep) % 7] });
            }
        }
    }
    v
}

// ---- exhaustive small scope ----------------------------------------------------------------

pub fn small_layout(internal: u8, depth: u8) -> Layout {
    use crate::model::content::ContentSpec;
    use crate::spec::writer::TEnt;
    Layout {
        internal,
        params: Default::default(),
        order: 0,
        gaps: [0; 5],
        depth,
        fan1: 2,
        fan2: 2,
        elide: true,
        leaf_shuffle: 0,
        leaf_gap: 0,
        first_id: 3,
        entries: vec![TEnt { gap: 0, run: 2, sel: 0 }, TEnt { gap: 1, run: 1, sel: 30000 }, TEnt { gap: 300, run: 1, sel: 0 }, TEnt { gap: 0, run: 1, sel: 60000 }],
        pool: vec![ContentSpec { kind: 2, len: 40, seed: 1 }, ContentSpec { kind: 0, len: 300, seed: 2 }, ContentSpec { kind: 1, len: 5, seed: 3 }],
        data_mode: 0,
        meta: Some(crate::model::J::O(vec![("name".into(), crate::model::J::S("small".into()))])),
        tile_type: 2,
        tile_comp: 1,
        zooms: [0, 5, 2],
        coords: [-1_800_000_000, -850_000_000, 1_800_000_000, 850_000_000, 21, -21],
        zero_counters: 0,
        overlap_prefixes: false,
        inline: 0,
        to_end: false,
    }
}

/// i-th composition of n (bitmask over the n-1 gaps) as a cap list
fn composition(n: usize, mask: u64) -> Vec<u32> {
    let mut parts = Vec::new();
    let mut cur = 1u32;
    for g in 0..n.saturating_sub(1) {
        if mask >> g & 1 == 1 {
            parts.push(cur);
            cur = 1;
        } else {
            cur += 1;
        }
    }
    parts.push(cur);
    parts
}

fn small_dirs() -> Vec<Vec<SEntry>> {
    vec![
        vec![],
        vec![SEntry { id: 1, off: 0, len: 1, run: 1 }],
        vec![SEntry { id: 300, off: 5, len: 200, run: 2 }],
        vec![SEntry { id: 1, off: 0, len: 3, run: 1 }, SEntry { id: 2, off: 3, len: 1, run: 1 }],
        vec![SEntry { id: 1, off: 0, len: 3, run: 1 }, SEntry { id: 900, off: 70000, len: 1, run: 0 }, SEntry { id: 901, off: 1, len: 200, run: 1 }],
        vec![SEntry { id: 1 << 33, off: 1 << 40, len: 1 << 20, run: 1 << 15 }],
    ]
}

/// one n-byte uncompressed directory under one composition: read and write, sync and async
fn check_dir_composition(es: &[SEntry], mask: u64) -> CaseResult {
    let raw = crate::spec::directory::encode(es, true);
    let caps = composition(raw.len(), mask);
    let sched = Sched { caps, ..Sched::default() };
    let d = super::c05::to_lib(es);
    let mut short = 0u64;
    for a in [false, true] {
        let kind = if a { "async" } else { "sync" };
        let mut s = Stream::writer(sched.clone());
        io("Directory::to_writer", kind, guarded("Directory::to_writer", || if a { block_on(d.to_async_writer(&mut s, pmtiles2::Compression::None)) } else { d.to_writer(&mut s, pmtiles2::Compression::None) })?)?;
        ensure!(s.data() == raw, format!("C13/write-differs/Directory::to_writer/{kind}"), "composition {:?}: image {:02x?} differs from {:02x?}", sched.caps, s.data(), raw);
        short += s.with(|c| c.shortened);
        let mut s = Stream::reader(raw.clone(), sched.clone());
        let len = raw.len() as u64;
        let got = io("Directory::from_reader", kind, guarded("Directory::from_reader", || if a { block_on(Directory::from_async_reader(&mut s, len, pmtiles2::Compression::None)) } else { Directory::from_reader(&mut s, len, pmtiles2::Compression::None) })?)?;
        ensure!(super::c05::from_lib(&got) == es, format!("C13/read-differs/Directory::from_reader/{kind}"), "composition {:?}: parsed entries differ", sched.caps);
        short += s.with(|c| c.shortened);
    }
    Ok(Meta::new(short > 0).label(short > 0, "short-transfers"))
}

/// header under a 2- or 3-part split
fn check_header_split(a_len: u32, b_len: u32) -> CaseResult {
    let l = small_layout(1, 1);
    let b = writer::build(&l);
    let hd = Header::from_bytes(&b.bytes[..127]).map_err(|e| Fail::new("C13/harness", format!("{e}")))?;
    let caps = if b_len == 0 { vec![a_len] } else { vec![a_len, b_len] };
    let sched = Sched { caps, ..Sched::default() };
    for a in [false, true] {
        let kind = if a { "async" } else { "sync" };
        let mut s = Stream::writer(sched.clone());
        io("Header::to_writer", kind, guarded("Header::to_writer", || if a { block_on(hd.to_async_writer(&mut s)) } else { hd.to_writer(&mut s) })?)?;
        ensure!(s.data() == b.bytes[..127], format!("C13/write-differs/Header::to_writer/{kind}"), "split {:?}: header image differs ({} bytes)", sched.caps, s.data().len());
        let mut s = Stream::reader(b.bytes.clone(), sched.clone());
        let got = io("Header::from_reader", kind, guarded("Header::from_reader", || if a { block_on(Header::from_async_reader(&mut s)) } else { Header::from_reader(&mut s) })?)?;
        ensure!(s.pos() == 127, format!("C13/header-consumed-wrong-length/{kind}"), "split {:?}: reader left at {}", sched.caps, s.pos());
        let mut out = std::io::Cursor::new(Vec::new());
        got.to_writer(&mut out).map_err(|e| Fail::new("C13/harness", format!("{e}")))?;
        ensure!(out.into_inner() == b.bytes[..127], format!("C13/read-differs/Header::from_reader/{kind}"), "split {:?}: parsed header differs", sched.caps);
    }
    Ok(Meta::new(true).label(true, "short-transfers"))
}

const CAPSET: [u32; 5] = [1, 2, 3, 7, 0];

fn strategy(max_entries: usize) -> impl Strategy<Value = Case> {
    let caps = prop_oneof![
        2 => (1u32..8).prop_map(|c| (vec![c], true)),
        3 => (proptest::collection::vec(prop_oneof![3 => 1u32..9, 1 => 9u32..300, 1 => Just(0u32)], 1..40), any::<bool>()),
        1 => Just((vec![], false)),
    ];
    let pend = prop_oneof![2 => Just((vec![], false)), 2 => (proptest::collection::vec(any::<bool>(), 1..40), any::<bool>()), 1 => Just((vec![true, true, true, false], true))];
    (layout::layout(LGen { max_entries, big_runs: false }), caps, pend, any::<bool>(), prop_oneof![5 => Just(false), 1 => Just(true)])
        .prop_map(|(l, (caps, cycle), (pending, pending_cycle), asyncio, spill)| Case { l, sched: Sched { caps, cycle, pending, pending_cycle, fail_from: None, fail_once_at: None, zero_write_from: None, capacity: None }, asyncio, spill })
}

pub fn run(ctx: &Ctx) {
    ctx.rec.set_rule(
        "exhaustive: every composition of n for six uncompressed directories of n <= 16 bytes (read and write, sync and async); every 2- and 3-part split of the 127-byte header; \
         every cap sequence over {1,2,3,7,unlimited} of length 6 applied to the first six transfer calls of small archives (4 codecs, root-only and with leaves; all reader and \
         writer APIs); every Pending pattern over the first 12 polls on the async side; fixed caps 1..k; seeded random schedules (caps, cycling, Pending bits) on generated foreign \
         layouts incl. forced leaf spill in write_directories. Oracle: readers return the same values as on an unscheduled stream, writers leave a byte-identical stream image and \
         position. Non-trivial: at least one transfer was actually shortened or one poll returned Pending; enumerated schedules are distinct by construction, random ones by digest.",
    );
    ctx.rec.assume("short transfers always move >= 1 byte; a Pending poll wakes the waker before returning; at most 3 consecutive Pending answers");
    ctx.rec.assume("writes after poll_close are accepted by the wrapper (an in-memory cursor accepts them too); the library closes the caller's stream during to_async_writer - reported as an observation, not a violation");
    // (a) compositions of small directories
    let dirs = small_dirs();
    let mut jobs: Vec<(usize, u64)> = Vec::new();
    for (di, es) in dirs.iter().enumerate() {
        let n = crate::spec::directory::encode(es, true).len();
        for m in 0..(1u64 << (n - 1).min(15)) {
            jobs.push((di, m));
        }
    }
    run_indexed(ctx, "all-compositions-small-directories", jobs.len() as u64, true, 64, |i| check_dir_composition(&dirs[jobs[i as usize].0], jobs[i as usize].1), |i| json!({"directory": dirs[jobs[i as usize].0], "composition_mask": jobs[i as usize].1}));
    // (b) header splits: 126 two-part, 7875 three-part
    let mut splits: Vec<(u32, u32)> = (1..127).map(|a| (a, 0)).collect();
    for a in 1..126u32 {
        for b in 1..(127 - a) {
            splits.push((a, b));
        }
    }
    run_indexed(ctx, "all-header-splits", splits.len() as u64, true, 64, |i| check_header_split(splits[i as usize].0, splits[i as usize].1), |i| json!({"split": splits[i as usize]}));
    // (c) cap sequences of length 6 over CAPSET on small archives
    let smalls: Vec<Layout> = (1..=4u8).flat_map(|c| [small_layout(c, 1), small_layout(c, 2)]).collect();
    let nseq = 5u64.pow(6);
    let quick = ctx.tier == crate::engine::Tier::Quick;
    let cap_case = move |i: u64| -> (usize, Sched, bool, bool) {
        let seq = i % nseq;
        let li = if quick { (i % 8) as usize } else { (i / nseq) as usize };
        let mut caps = Vec::new();
        let mut x = seq;
        for _ in 0..6 {
            caps.push(CAPSET[(x % 5) as usize]);
            x /= 5;
        }
        (li, Sched { caps, ..Sched::default() }, (i / 3) % 2 == 1, false)
    };
    let show = |c: (usize, Sched, bool, bool)| json!({"small": c.0, "sched": c.1, "asyncio": c.2, "spill": c.3});
    run_indexed(ctx, "all-cap-sequences-len6", nseq * ctx.tier.pick(1, 8), true, 16, |i| { let c = cap_case(i); check_layout(&smalls[c.0], &c.1, c.2, c.3) }, |i| show(cap_case(i)));
    // (d) Pending patterns over the first 12 polls
    let pend_case = move |i: u64| -> (usize, Sched, bool, bool) {
        let pat = i % 4096;
        let li = if quick { (i % 8) as usize } else { (i / 4096) as usize };
        let pending: Vec<bool> = (0..12).map(|b| pat >> b & 1 == 1).collect();
        (li, Sched { pending, ..Sched::default() }, true, false)
    };
    run_indexed(ctx, "all-pending-patterns-12-polls", 4096 * ctx.tier.pick(1, 8), true, 16, |i| { let c = pend_case(i); check_layout(&smalls[c.0], &c.1, c.2, c.3) }, |i| show(pend_case(i)));
    // (e) fixed caps 1..k on small + one bigger archive
    let kmax = ctx.tier.pick(24u64, 64);
    let fixed_case = move |i: u64| -> (usize, Sched, bool, bool) { ((i % 8) as usize, Sched::fixed_cap(1 + (i / 16) as u32), (i / 8) % 2 == 1, i % 5 == 0) };
    run_indexed(ctx, "fixed-caps-1..k", kmax * 16, true, 1, |i| { let c = fixed_case(i); check_layout(&smalls[c.0], &c.1, c.2, c.3) }, |i| show(fixed_case(i)));
    // large archives (leaf spill on the write side, big tiles on the read side)
    let bigs = big_cases(ctx);
    crate::engine::run_list(ctx, "large-archives-under-schedules", &bigs, check_big);
    // (f) random schedules on generated archives
    run_proptest(ctx, "random-schedules", PtCfg::new(ctx.lanes, ctx.tier.pick(60, 1500)), || strategy(ctx.tier.pick(120, 800)), check);
    ctx.rec.floor("archive-write-with-leaf-spill", 8);
    ctx.rec.floor("tile>64KiB", 6);
    for c in ["short-transfers", "pending-polls", "async", "sync", "leaf-spill", "archive-with-leaves", "internal-brotli", "internal-gzip", "internal-zstd", "internal-none"] {
        ctx.rec.floor(c, 20);
    }
}

pub fn replay(sub: &str, case: &Value) -> Option<CaseResult> {
    match sub {
        "random-schedules" => Some(check(&super::de(case)?)),
        "large-archives-under-schedules" => Some(check_big(&super::de(case)?)),
        "all-compositions-small-directories" => {
            let es: Vec<SEntry> = super::de(case.get("directory")?)?;
            Some(check_dir_composition(&es, case.get("composition_mask")?.as_u64()?))
        }
        "all-cap-sequences-len6" | "all-pending-patterns-12-polls" | "fixed-caps-1..k" => {
            let smalls: Vec<Layout> = (1..=4u8).flat_map(|c| [small_layout(c, 1), small_layout(c, 2)]).collect();
            let li = case.get("small")?.as_u64()? as usize;
            let sched: Sched = super::de(case.get("sched")?)?;
            Some(check_layout(smalls.get(li)?, &sched, case.get("asyncio")?.as_bool()?, case.get("spill")?.as_bool()?))
        }
        "all-header-splits" => {
            let s: (u32, u32) = super::de(case.get("split")?)?;
            Some(check_header_split(s.0, s.1))
        }
        _ => None,
    }
}
