//! C14 — compression helpers are exact inverses for every codec and chunking.

use crate::engine::{guarded, run_list, run_proptest, CaseResult, Ctx, Fail, Meta, PtCfg};
use crate::model::content::ContentSpec;
use crate::spec::codec;
use futures::executor::block_on;
use futures::{AsyncReadExt, AsyncWriteExt};
use pmtiles2::util;
use proptest::prelude::*;
use serde::{Deserialize, Serialize};
use serde_json::Value;
use std::io::{Read, Write};
use std::sync::Mutex;

#[derive(Clone, Debug, Serialize, Deserialize)]
pub struct Case {
    pub kind: u8,
    pub len: u32,
    pub seed: u32,
    pub codec: u8,
    /// write-call sizes for the streaming encoder (cycled; empty = one write)
    pub wsplit: Vec<u32>,
    /// read-call sizes for the streaming decoder (cycled; empty = read_to_end)
    pub rsplit: Vec<u32>,
    /// transfer sizes of the underlying stream itself (the source a decoder pulls from, the sink an encoder
    /// pushes into), cycled; empty = an in-memory cursor / vector that transfers everything asked for
    #[serde(default)]
    pub ssplit: Vec<u32>,
    /// the streaming encoders are flushed after every n-th write (0: only once, at the end)
    #[serde(default)]
    pub flush_every: u8,
    /// the underlying async stream answers "not ready yet" on every n-th poll (0 or 1: never)
    #[serde(default)]
    pub pend_every: u8,
}

/// An in-memory stream that moves at most `split[i]` bytes in its i-th transfer.
struct Trickle<'a> {
    src: &'a [u8],
    at: usize,
    sink: Vec<u8>,
    split: &'a [u32],
    i: usize,
    pend_every: u8,
    polls: usize,
    limit_hint: usize,
}

impl<'a> Trickle<'a> {
    fn new(src: &'a [u8], split: &'a [u32]) -> Self {
        Trickle { src, at: 0, sink: Vec::new(), split, i: 0, pend_every: 0, polls: 0, limit_hint: 0 }
    }
    fn not_ready(&mut self, cx: &mut std::task::Context<'_>) -> bool {
        self.polls += 1;
        if self.pend_every >= 2 && self.polls % usize::from(self.pend_every) == 0 {
            cx.waker().wake_by_ref();
            return true;
        }
        false
    }
    fn cap(&mut self, want: usize) -> usize {
        if self.split.is_empty() {
            return want;
        }
        let k = self.split[self.i % self.split.len()].max(1) as usize;
        self.i += 1;
        want.min(k)
    }
}

impl Read for Trickle<'_> {
    fn read(&mut self, buf: &mut [u8]) -> std::io::Result<usize> {
        let n = self.cap(buf.len()).min(self.src.len() - self.at);
        buf[..n].copy_from_slice(&self.src[self.at..self.at + n]);
        self.at += n;
        Ok(n)
    }
}

impl Write for Trickle<'_> {
    fn write(&mut self, buf: &[u8]) -> std::io::Result<usize> {
        let n = self.cap(buf.len());
        if self.sink.len() > (64 << 20) + 64 * self.limit_hint {
            return Err(std::io::Error::new(std::io::ErrorKind::Other, "verif sink: far more bytes than any encoding of the input needs (livelock?)"));
        }
        self.sink.extend_from_slice(&buf[..n]);
        Ok(n)
    }
    fn flush(&mut self) -> std::io::Result<()> {
        Ok(())
    }
}

impl futures::AsyncRead for Trickle<'_> {
    fn poll_read(mut self: std::pin::Pin<&mut Self>, cx: &mut std::task::Context<'_>, buf: &mut [u8]) -> std::task::Poll<std::io::Result<usize>> {
        if self.not_ready(cx) {
            return std::task::Poll::Pending;
        }
        std::task::Poll::Ready(Read::read(&mut *self, buf))
    }
}

impl futures::AsyncWrite for Trickle<'_> {
    fn poll_write(mut self: std::pin::Pin<&mut Self>, cx: &mut std::task::Context<'_>, buf: &[u8]) -> std::task::Poll<std::io::Result<usize>> {
        if self.not_ready(cx) {
            return std::task::Poll::Pending;
        }
        std::task::Poll::Ready(Write::write(&mut *self, buf))
    }
    fn poll_flush(self: std::pin::Pin<&mut Self>, _: &mut std::task::Context<'_>) -> std::task::Poll<std::io::Result<()>> {
        std::task::Poll::Ready(Ok(()))
    }
    fn poll_close(self: std::pin::Pin<&mut Self>, _: &mut std::task::Context<'_>) -> std::task::Poll<std::io::Result<()>> {
        std::task::Poll::Ready(Ok(()))
    }
}

fn data(c: &Case) -> Vec<u8> {
    if c.len == 0 {
        return Vec::new();
    }
    let base = ContentSpec { kind: c.kind % 3, len: c.len, seed: c.seed }.bytes();
    match c.kind / 3 {
        // payload that begins with a codec's magic number (gzip, zstd, a brotli-looking byte, gzip again)
        1 => {
            let magic: &[u8] = [&[0x1f, 0x8b, 0x08][..], &[0x28, 0xb5, 0x2f, 0xfd][..], &[0x8b][..], &[0x1f, 0x8b][..]][(c.seed % 4) as usize];
            let mut v = magic.to_vec();
            v.extend_from_slice(&base);
            v.truncate(c.len.max(1) as usize);
            v
        }
        // payload that is itself a complete compressed stream (compressing twice)
        2 => codec::compress(1 + (c.seed % 4) as u8, &base[..base.len().min(20_000)], codec::Params { level: 6, flag: 0 }),
        _ => base,
    }
}

static GZ_QUEUE: Mutex<Vec<(Vec<u8>, u64, usize)>> = Mutex::new(Vec::new());

fn chunks<'a>(d: &'a [u8], split: &[u32]) -> Vec<&'a [u8]> {
    if split.is_empty() || d.is_empty() {
        return vec![d];
    }
    let mut out = Vec::new();
    let mut at = 0;
    let mut i = 0;
    while at < d.len() {
        let n = (split[i % split.len()].max(1) as usize).min(d.len() - at);
        out.push(&d[at..at + n]);
        at += n;
        i += 1;
        if out.len() > 200_000 {
            out.push(&d[at..]);
            break;
        }
    }
    out
}

fn stream_compress_sync(c: u8, d: &[u8], split: &[u32], ssplit: &[u32], flush_every: u8) -> std::io::Result<(Vec<u8>, usize)> {
    let mut out = Trickle::new(&[], ssplit);
    let parts = chunks(d, split);
    {
        let mut w = util::compress(codec::to_lib(c), &mut out)?;
        for (i, p) in parts.iter().enumerate() {
            w.write_all(p)?;
            if flush_every > 0 && (i + 1) % usize::from(flush_every) == 0 && i < 64 {
                w.flush()?;
            }
        }
        w.flush()?;
    }
    Ok((out.sink, parts.len()))
}

fn stream_compress_async(c: u8, d: &[u8], split: &[u32], ssplit: &[u32], flush_every: u8, pend_every: u8) -> std::io::Result<(Vec<u8>, usize)> {
    let mut out = Trickle::new(&[], ssplit);
    out.pend_every = pend_every;
    let parts = chunks(d, split);
    {
        let mut w = util::compress_async(codec::to_lib(c), &mut out)?;
        for (i, p) in parts.iter().enumerate() {
            block_on(w.write_all(p))?;
            if flush_every > 0 && (i + 1) % usize::from(flush_every) == 0 && i < 64 {
                block_on(w.flush())?;
            }
        }
        block_on(w.close())?;
    }
    Ok((out.sink, parts.len()))
}

fn stream_decompress_sync(c: u8, comp: &[u8], split: &[u32], ssplit: &[u32]) -> std::io::Result<(Vec<u8>, usize)> {
    let mut cur = Trickle::new(comp, ssplit);
    let mut r = util::decompress(codec::to_lib(c), &mut cur)?;
    let mut out = Vec::new();
    if split.is_empty() {
        r.read_to_end(&mut out)?;
        return Ok((out, 1));
    }
    let mut buf = vec![0u8; split.iter().copied().max().unwrap_or(1).max(1) as usize];
    let mut i = 0usize;
    loop {
        // now and then a read into an empty buffer: it returns 0 and means nothing (not for zstd, whose upstream
        // reader refuses empty buffers)
        if i % 7 == 3 && c != 4 {
            let z = r.read(&mut buf[..0])?;
            if z != 0 {
                return Err(std::io::Error::new(std::io::ErrorKind::Other, "a read into an empty buffer returned bytes"));
            }
        }
        let k = split[i % split.len()].max(1) as usize;
        let n = r.read(&mut buf[..k])?;
        if n == 0 {
            break;
        }
        out.extend_from_slice(&buf[..n]);
        i += 1;
    }
    Ok((out, i))
}

fn stream_decompress_async(c: u8, comp: &[u8], split: &[u32], ssplit: &[u32], pend_every: u8) -> std::io::Result<(Vec<u8>, usize)> {
    let mut cur = Trickle::new(comp, ssplit);
    cur.pend_every = pend_every;
    let mut r = util::decompress_async(codec::to_lib(c), &mut cur)?;
    let mut out = Vec::new();
    if split.is_empty() {
        block_on(r.read_to_end(&mut out))?;
        return Ok((out, 1));
    }
    let mut buf = vec![0u8; split.iter().copied().max().unwrap_or(1).max(1) as usize];
    let mut i = 0usize;
    loop {
        let k = split[i % split.len()].max(1) as usize;
        let n = block_on(r.read(&mut buf[..k]))?;
        if n == 0 {
            break;
        }
        out.extend_from_slice(&buf[..n]);
        i += 1;
    }
    Ok((out, i))
}

fn same(a: &[u8], b: &[u8]) -> String {
    let at = a.iter().zip(b).position(|(x, y)| x != y).unwrap_or(a.len().min(b.len()));
    format!("{} vs {} bytes, first difference at {at}", a.len(), b.len())
}

fn check(c: &Case, py: bool) -> CaseResult {
    let d = data(c);
    let cn = codec::name(c.codec);
    let e = |what: &str, r: std::io::Result<(Vec<u8>, usize)>| r.map_err(|e| Fail::new(format!("C14/err/{what}/{cn}"), format!("{what} failed on {} input bytes: {e}", d.len())));
    // a failing one-shot call first (truncated stream of another payload): state left behind by a failed call
    // must not leak into the next one
    if c.seed % 3 == 0 && c.codec != 1 {
        let other = ContentSpec { kind: 2, len: 3000 + c.len % 5000, seed: c.seed ^ 0x55 }.bytes();
        let mut broken = codec::compress(c.codec, &other, codec::Params { level: 6, flag: 0 });
        let keep = broken.len() * 2 / 3;
        broken.truncate(keep.max(1));
        let _ = guarded("decompress_all", || util::decompress_all(codec::to_lib(c.codec), &broken))?;
    }
    // the one-shot helpers are called on a sibling payload first (same length, one byte in the middle differs):
    // nothing of that call may show in the result for the payload under test
    if d.len() >= 3 {
        let mut sib = d.clone();
        let m = sib.len() / 2;
        sib[m] ^= 0x5a;
        if let Ok(cs) = guarded("compress_all", || util::compress_all(codec::to_lib(c.codec), &sib))? {
            let back = guarded("decompress_all", || util::decompress_all(codec::to_lib(c.codec), &cs))?.map_err(|e| Fail::new(format!("C14/err/decompress_all/{cn}"), format!("sibling payload: {e}")))?;
            ensure!(back == sib, format!("C14/roundtrip-differs/compress_all->decompress_all/{cn}/sibling"), "{}", same(&back, &sib));
        }
    }
    // encoders
    let one = guarded("compress_all", || util::compress_all(codec::to_lib(c.codec), &d))?.map_err(|e| Fail::new(format!("C14/err/compress_all/{cn}"), format!("{e}")))?;
    let (ss, nw) = e("compress(streaming)", guarded("compress", || stream_compress_sync(c.codec, &d, &c.wsplit, &c.ssplit, c.flush_every))?)?;
    let (sa, _) = e("compress_async", guarded("compress_async", || stream_compress_async(c.codec, &d, &c.wsplit, &c.ssplit, if c.pend_every >= 2 { 0 } else { c.flush_every }, c.pend_every))?)?;
    let mut nr = 0;
    for (ename, comp) in [("compress_all", &one), ("compress-streaming", &ss), ("compress_async", &sa)] {
        // upstream crates decode it, consuming the whole stream
        let (up, all) = codec::decompress(c.codec, comp, usize::MAX).map_err(|m| Fail::new(format!("C14/not-a-standard-stream/{ename}/{cn}"), format!("upstream decoder rejects the output of {ename} ({} input bytes): {m}", d.len())))?;
        ensure!(up == d, format!("C14/not-a-standard-stream/{ename}/{cn}"), "upstream decoder yields different bytes for the output of {ename}: {}", same(&up, &d));
        ensure!(all, format!("C14/trailing-bytes/{ename}/{cn}"), "output of {ename} has bytes after the end of the compressed stream");
        // library decoders, every pairing
        let r1 = guarded("decompress_all", || util::decompress_all(codec::to_lib(c.codec), comp))?.map_err(|e| Fail::new(format!("C14/err/decompress_all/{cn}"), format!("on the output of {ename}: {e}")))?;
        ensure!(r1 == d, format!("C14/roundtrip-differs/{ename}->decompress_all/{cn}"), "{}", same(&r1, &d));
        let (r2, n2) = e("decompress(streaming)", guarded("decompress", || stream_decompress_sync(c.codec, comp, &c.rsplit, &c.ssplit))?)?;
        ensure!(r2 == d, format!("C14/roundtrip-differs/{ename}->decompress-streaming/{cn}"), "read sizes {:?}: {}", &c.rsplit[..c.rsplit.len().min(6)], same(&r2, &d));
        let (r3, _) = e("decompress_async", guarded("decompress_async", || stream_decompress_async(c.codec, comp, &c.rsplit, &c.ssplit, c.pend_every))?)?;
        ensure!(r3 == d, format!("C14/roundtrip-differs/{ename}->decompress_async/{cn}"), "read sizes {:?}: {}", &c.rsplit[..c.rsplit.len().min(6)], same(&r3, &d));
        nr = nr.max(n2);
    }
    // the library also decodes what the upstream encoders produce with other parameters
    let foreign = codec::compress(c.codec, &d, codec::Params { level: (c.seed % 10) as u8, flag: (c.seed >> 8) as u8 });
    let rf = guarded("decompress_all", || util::decompress_all(codec::to_lib(c.codec), &foreign))?.map_err(|e| Fail::new(format!("C14/err/decompress_all-foreign/{cn}"), format!("{e}")))?;
    ensure!(rf == d, format!("C14/foreign-stream-decoded-differently/{cn}"), "{}", same(&rf, &d));
    if py && c.codec == 2 && d.len() <= 300_000 {
        let mut q = GZ_QUEUE.lock().unwrap();
        if q.len() < 300 {
            q.push((ss.clone(), crate::engine::record::fxhash(&d[..d.len().min(65536)]), d.len()));
            q.push((sa.clone(), crate::engine::record::fxhash(&d[..d.len().min(65536)]), d.len()));
        }
    }
    Ok(Meta::new(d.len() >= 2 && (nw >= 2 || nr >= 2))
        .label(d.is_empty(), "empty-input")
        .label(d.len() == 1, "one-byte")
        .label(d.len() > 100_000, "large-input")
        .label(c.kind / 3 == 1, "starts-with-codec-magic")
        .label(c.kind / 3 == 2, "already-compressed-payload")
        .label(c.seed % 3 == 0 && c.codec != 1, "after-failed-decompress")
        .label(nw >= 2, "multi-write")
        .label(nr >= 2, "multi-read")
        .label(c.flush_every > 0 && nw > usize::from(c.flush_every), "flush-between-writes")
        .label(!c.ssplit.is_empty(), "short-transfers-in-underlying-stream")
        .label(!c.ssplit.is_empty() && c.pend_every >= 2, "short-transfers-and-not-ready-answers")
        .label(c.ssplit.first().map_or(false, |k| *k < 4), "first-transfer-shorter-than-a-codec-magic")
        .label(true, super::c01::codec_label(c.codec)))
}

fn check_unknown(_: &u8) -> CaseResult {
    let u = pmtiles2::Compression::Unknown;
    let d = b"some bytes".to_vec();
    ensure!(guarded("compress_all", || util::compress_all(u, &d))?.is_err(), "C14/unknown-accepted/compress_all", "compress_all(Unknown) returned Ok");
    ensure!(guarded("decompress_all", || util::decompress_all(u, &d))?.is_err(), "C14/unknown-accepted/decompress_all", "decompress_all(Unknown) returned Ok");
    // ... also when the payload really is a compressed stream of one of the codecs
    for cc in 1u8..=4 {
        let real = codec::compress(cc, &d.repeat(40), codec::Params { level: 6, flag: 0 });
        ensure!(guarded("decompress_all", || util::decompress_all(u, &real))?.is_err(), format!("C14/unknown-accepted/decompress_all/{}-payload", codec::name(cc)), "decompress_all(Unknown) returned Ok for a {} stream", codec::name(cc));
        let mut cur = std::io::Cursor::new(&real[..]);
        ensure!(guarded("decompress", || util::decompress(u, &mut cur).is_err())?, format!("C14/unknown-accepted/decompress/{}-payload", codec::name(cc)), "decompress(Unknown) returned Ok for a {} stream", codec::name(cc));
    }
    let mut out = Vec::new();
    ensure!(guarded("compress", || util::compress(u, &mut out).is_err())?, "C14/unknown-accepted/compress", "compress(Unknown) returned Ok");
    let mut cur = std::io::Cursor::new(&d[..]);
    ensure!(guarded("decompress", || util::decompress(u, &mut cur).is_err())?, "C14/unknown-accepted/decompress", "decompress(Unknown) returned Ok");
    let mut out2 = Vec::new();
    ensure!(guarded("compress_async", || util::compress_async(u, &mut out2).is_err())?, "C14/unknown-accepted/compress_async", "compress_async(Unknown) returned Ok");
    let mut cur2 = futures::io::Cursor::new(&d[..]);
    ensure!(guarded("decompress_async", || util::decompress_async(u, &mut cur2).is_err())?, "C14/unknown-accepted/decompress_async", "decompress_async(Unknown) returned Ok");
    Ok(Meta::new(true).label(true, "unknown-compression"))
}

fn python_batch(ctx: &Ctx) {
    let q = std::mem::take(&mut *GZ_QUEUE.lock().unwrap());
    if q.is_empty() {
        return;
    }
    let dir = ctx.verif_dir.join("work").join(format!("c14-py-{}", std::process::id()));
    let _ = std::fs::create_dir_all(&dir);
    let mut cmd = std::process::Command::new("python3");
    cmd.arg(ctx.verif_dir.join("tools").join("pmtiles_ref.py")).arg("gunzip");
    for (i, (b, _, _)) in q.iter().enumerate() {
        let p = dir.join(format!("{i}.gz"));
        let _ = std::fs::write(&p, b);
        cmd.arg(p);
    }
    match cmd.output() {
        Err(e) => ctx.rec.infra(&format!("python3 not runnable: {e}")),
        Ok(o) => {
            let mut acc = crate::engine::record::LaneAcc::default();
            let text = String::from_utf8_lossy(&o.stdout).to_string();
            for line in text.lines() {
                let parts: Vec<&str> = line.split_whitespace().collect();
                if parts.len() >= 2 {
                    let i: usize = parts[1].parse().unwrap_or(0);
                    let ok = parts[0] == "OK" && parts.len() == 4 && parts[2] == format!("{:016x}", q[i].1) && parts[3] == q[i].2.to_string();
                    acc.evals += 1;
                    if ok {
                        acc.nontrivial_undigested += 1;
                    } else {
                        let f = Fail::new("C14/python-zlib-disagrees", format!("Python zlib on the library's gzip output: {line} (expected hash {:016x} len {})", q[i].1, q[i].2));
                        ctx.rec.violation(&ctx.verif_dir, ctx.prop, "python-zlib", &f, serde_json::json!({"gzip_hex": crate::engine::hex(&q[i].0)}));
                    }
                }
            }
            if acc.evals as usize != q.len() {
                ctx.rec.infra(&format!("python gunzip batch answered {} of {}", acc.evals, q.len()));
            }
            ctx.rec.merge("python-zlib", acc);
            ctx.rec.sub_done("python-zlib", false, 0.0, "gzip outputs of the streaming sync and async encoders decoded by Python's zlib (unrelated implementation)");
        }
    }
    let _ = std::fs::remove_dir_all(&dir);
}

fn strategy(max_len: u32) -> impl Strategy<Value = Case> {
    let len = prop_oneof![1 => Just(0u32), 1 => Just(1u32), 4 => 2u32..300, 3 => 300u32..20_000, 1 => 20_000u32..=max_len];
    let split = || prop_oneof![1 => Just(vec![]), 2 => (1u32..10).prop_map(|k| vec![k]), 3 => proptest::collection::vec(prop_oneof![3 => 1u32..20, 2 => 20u32..5000, 1 => 5000u32..100_000], 1..8)];
    (prop_oneof![6 => 0u8..3, 2 => 3u8..6, 2 => 6u8..9], len, any::<u32>(), 1u8..=4, split(), split(), prop_oneof![2 => Just(vec![]), 1 => (1u32..6).prop_map(|k| vec![k]), 2 => proptest::collection::vec(prop_oneof![3 => 1u32..8, 2 => 8u32..5000], 1..6)], prop_oneof![3 => Just(0u8), 2 => Just(1u8), 1 => 2u8..6], prop_oneof![2 => Just(0u8), 1 => 2u8..5]).prop_map(|(kind, len, seed, codec, wsplit, rsplit, ssplit, flush_every, pend_every)| Case { kind, len, seed, codec, wsplit, rsplit, ssplit, flush_every, pend_every })
}

pub fn run(ctx: &Ctx) {
    ctx.rec.set_rule(
        "byte strings (empty, 1 byte, all-equal, text-like, incompressible; up to 256 KiB quick / 8 MiB thorough) x {none, gzip, brotli, zstd} x encoders {compress_all, streaming \
         compress fed by a generated write-size schedule then flush+drop, compress_async then close} x decoders {decompress_all, streaming decompress drained with a generated \
         read-size schedule, decompress_async}: every pairing must be the identity; the compressed form must be decoded to the same bytes, with nothing left over, by flate2 / brotli / \
         zstd called directly, gzip outputs also by Python's zlib; streams produced by the upstream encoders with other parameters must decode; Compression::Unknown must be Err from all \
         six entry points. Non-trivial: length >= 2 and >= 2 write calls or >= 2 read calls; distinct by digest.",
    );
    let py = true;
    run_proptest(ctx, "codec-pairings", PtCfg::new(ctx.lanes, ctx.tier.pick(300, 5000)), || strategy(ctx.tier.pick(262_144, 1_048_576)), |c| check(c, py));
    let big: Vec<Case> = (0..ctx.tier.pick(4, 16))
        .map(|i| Case { kind: (i % 3) as u8, len: ctx.tier.pick(262_144, if i % 4 == 2 { 1 << 20 } else { 8 << 20 }), seed: 77 + i as u32, codec: 1 + (i % 4) as u8, wsplit: vec![65_536, 1, 4096], rsplit: vec![8192, 3], ssplit: if i % 2 == 0 { vec![] } else { vec![1, 3, 70_000] }, flush_every: (i % 3) as u8, pend_every: if i % 4 == 1 { 3 } else { 0 } })
        .collect();
    run_list(ctx, "codec-pairings-large", &big, |c| check(c, false));
    // just above 1 MiB for every codec in every tier (buffer / member-size thresholds of the codecs)
    let mib: Vec<Case> = (1..=4u8).map(|c| Case { kind: if c % 2 == 0 { 2 } else { 0 }, len: (1 << 20) + 1 + u32::from(c), seed: 5 + u32::from(c), codec: c, wsplit: vec![], rsplit: vec![], ssplit: vec![], flush_every: 0, pend_every: 0 }).collect();
    run_list(ctx, "codec-pairings-above-1MiB", &mib, |c| check(c, false));
    run_list(ctx, "unknown-compression", &[0u8, 1u8], check_unknown);
    python_batch(ctx);
    for c in ["empty-input", "one-byte", "large-input", "multi-write", "multi-read", "starts-with-codec-magic", "already-compressed-payload", "after-failed-decompress", "flush-between-writes", "short-transfers-in-underlying-stream", "short-transfers-and-not-ready-answers", "first-transfer-shorter-than-a-codec-magic", "internal-brotli", "internal-gzip", "internal-zstd", "internal-none"] {
        ctx.rec.floor(c, 4);
    }
}

pub fn replay(sub: &str, case: &Value) -> Option<CaseResult> {
    match sub {
        "codec-pairings" | "codec-pairings-large" | "codec-pairings-above-1MiB" => Some(check(&super::de(case)?, false)),
        "unknown-compression" => Some(check_unknown(&0)),
        _ => None,
    }
}

