//! C15 — I/O failures surface as errors, never as success or a crash (fail-stop fault enumeration).

use crate::engine::{catch, guarded, run_indexed, run_proptest, sample, CaseResult, Ctx, Fail, Meta, PanicInfo, PtCfg};
use proptest::prelude::*;
use crate::model::layout::{self, LGen};
use crate::sio::{OpRec, Sched, Stream};
use crate::spec::codec;
use crate::spec::writer::{self, Built, Layout};
use futures::executor::block_on;
use pmtiles2::util::WriteDirsOverflowStrategy;
use pmtiles2::{Directory, Header, PMTiles};
use serde::{Deserialize, Serialize};
use serde_json::{json, Value};

#[derive(Clone, Copy, Debug, PartialEq, Eq, Serialize, Deserialize)]
pub enum Scen {
    HeaderRead,
    HeaderWrite,
    DirRead,
    DirWrite,
    ReadDirs,
    WriteDirs,
    WriteDirsSpill,
    Open,
    OpenPartial,
    OpenAndGet,
    WriteMem,
    WriteBacked,
    WriteSourceFaults,
}

pub const ALL_SCEN: [Scen; 13] = [
    Scen::HeaderRead,
    Scen::HeaderWrite,
    Scen::DirRead,
    Scen::DirWrite,
    Scen::ReadDirs,
    Scen::WriteDirs,
    Scen::WriteDirsSpill,
    Scen::Open,
    Scen::OpenPartial,
    Scen::OpenAndGet,
    Scen::WriteMem,
    Scen::WriteBacked,
    Scen::WriteSourceFaults,
];

impl Scen {
    pub fn name(self) -> &'static str {
        match self {
            Scen::HeaderRead => "Header::from_reader",
            Scen::HeaderWrite => "Header::to_writer",
            Scen::DirRead => "Directory::from_reader",
            Scen::DirWrite => "Directory::to_writer",
            Scen::ReadDirs => "util::read_directories",
            Scen::WriteDirs => "util::write_directories",
            Scen::WriteDirsSpill => "util::write_directories(spill)",
            Scen::Open => "PMTiles::from_reader",
            Scen::OpenPartial => "PMTiles::from_reader_partially",
            Scen::OpenAndGet => "PMTiles::get_tile_by_id",
            Scen::WriteMem => "PMTiles::to_writer(in-memory)",
            Scen::WriteBacked => "PMTiles::to_writer(reader-backed)",
            Scen::WriteSourceFaults => "PMTiles::to_writer(source-reader-fails)",
        }
    }
}

#[derive(Clone, Debug, Serialize, Deserialize)]
pub struct Inst {
    pub scen: Scen,
    pub asyncio: bool,
    pub lay: Layout,
}

pub struct Prep {
    pub b: Built,
    pub entries: Vec<pmtiles2::Entry>,
    pub n: u64,
    pub log: Vec<OpRec>,
    /// size of the stream after the fault-free run (write scenarios)
    pub out_len: u64,
}

pub type Outcome = Result<Result<(), String>, PanicInfo>;

fn es(r: std::io::Result<()>) -> Result<(), String> {
    r.map_err(|e| e.to_string())
}

fn spill_entries(seed: u64) -> Vec<pmtiles2::Entry> {
    let mut r = crate::engine::Sm(seed);
    let mut id = 0u64;
    (0..9000)
        .map(|_| {
            id += 1 + r.below(1 << 20);
            pmtiles2::Entry { tile_id: id, offset: r.below(1 << 40), length: 1 + r.below(1 << 24) as u32, run_length: 1 }
        })
        .collect()
}

/// Run the scenario once on a stream with the given schedule. `fail_at`: fault index relative to the
/// scenario's own operations. Returns the outcome and the stream whose operations are counted.
pub fn exec(inst: &Inst, b: &Built, entries: &[pmtiles2::Entry], sched: Sched, fail_at: Option<u64>, keep_log: bool, start_pos: u64) -> (Outcome, Stream, u64) {
    exec2(inst, b, entries, sched, fail_at, None, keep_log, start_pos)
}

/// `zero_at`: from this operation on the output accepts no more bytes (`write` returns Ok(0))
#[allow(clippy::too_many_arguments)]
pub fn exec2(inst: &Inst, b: &Built, entries: &[pmtiles2::Entry], sched: Sched, fail_at: Option<u64>, zero_at: Option<u64>, keep_log: bool, start_pos: u64) -> (Outcome, Stream, u64) {
    let c = codec::to_lib(b.header.internal);
    let a = inst.asyncio;
    let mut sched = sched;
    sched.fail_from = fail_at;
    // (the second fault kind is a fixed-size sink: `zero_at` is its capacity in bytes)
    sched.capacity = zero_at;
    let mk_reader = |data: Vec<u8>| Stream::new(data, 0, sched.clone(), keep_log);
    let mk_writer = || Stream::new(vec![0xEE; start_pos as usize], start_pos, sched.clone(), keep_log);
    let mut base_ops = 0u64;
    let (out, st): (Outcome, Stream) = match inst.scen {
        Scen::HeaderRead => {
            let mut s = mk_reader(b.bytes.clone());
            let o = catch(|| if a { block_on(Header::from_async_reader(&mut s)).map(|_| ()) } else { Header::from_reader(&mut s).map(|_| ()) });
            (o.map(es), s)
        }
        Scen::HeaderWrite => {
            let h = Header::from_bytes(&b.bytes[..127]).expect("valid header");
            let mut s = mk_writer();
            let o = catch(|| if a { block_on(h.to_async_writer(&mut s)) } else { h.to_writer(&mut s) });
            (o.map(es), s)
        }
        Scen::DirRead => {
            let blob = b.dirs[0].blob.clone();
            let len = blob.len() as u64;
            let mut s = mk_reader(blob);
            let o = catch(|| if a { block_on(Directory::from_async_reader(&mut s, len, c)).map(|_| ()) } else { Directory::from_reader(&mut s, len, c).map(|_| ()) });
            (o.map(es), s)
        }
        Scen::DirWrite => {
            let d = Directory::from(entries.to_vec());
            let mut s = mk_writer();
            let o = catch(|| if a { block_on(d.to_async_writer(&mut s, c)) } else { d.to_writer(&mut s, c) });
            (o.map(es), s)
        }
        Scen::ReadDirs => {
            let h = &b.header;
            let mut s = mk_reader(b.bytes.clone());
            let o = catch(|| {
                if a {
                    block_on(pmtiles2::util::read_directories_async(&mut s, c, (h.root_off, h.root_len), h.leaf_off, ..)).map(|_| ())
                } else {
                    pmtiles2::util::read_directories(&mut s, c, (h.root_off, h.root_len), h.leaf_off, ..).map(|_| ())
                }
            });
            (o.map(es), s)
        }
        Scen::WriteDirs | Scen::WriteDirsSpill => {
            let strat = Some(WriteDirsOverflowStrategy::OnlyLeafPointers { start_size: Some(1024) });
            let mut s = mk_writer();
            let o = catch(|| if a { block_on(pmtiles2::util::write_directories_async(&mut s, entries, c, strat)).map(|_| ()) } else { pmtiles2::util::write_directories(&mut s, entries, c, strat).map(|_| ()) });
            (o.map(es), s)
        }
        Scen::Open | Scen::OpenPartial | Scen::OpenAndGet => {
            let s = mk_reader(b.bytes.clone());
            // lookups: a few ids, each twice, plus the neighbour inside the same run / the same content
            let mut ids: Vec<u64> = Vec::new();
            for id in b.expected.keys().step_by(b.expected.len() / 3 + 1) {
                ids.extend([*id, *id, id + 1, *id]);
            }
            let lo = b.steer.get(b.steer.len() / 3).copied().unwrap_or(0);
            let partial = inst.scen == Scen::OpenPartial;
            let get = inst.scen == Scen::OpenAndGet;
            let s2 = s.clone();
            // Under fail-stop every lookup issued after the first failing one needs the (still failing) stream
            // again, so it has to be an error too: a lookup that "succeeds" after a failed one reports bytes that
            // were never transferred. The sequence counts as Err only if it is Err from the first failure on.
            // (a tile that exists must not turn into "no such tile" either)
            fn seq(results: impl Iterator<Item = (bool, std::io::Result<Option<Vec<u8>>>)>) -> std::io::Result<()> {
                let mut first_err: Option<std::io::Error> = None;
                for (exists, r) in results {
                    match r {
                        Err(e) => {
                            if first_err.is_none() {
                                first_err = Some(e);
                            }
                        }
                        Ok(Some(_)) if first_err.is_some() => return Ok(()), // success reported after the fault
                        Ok(None) if first_err.is_some() && exists => return Ok(()), // an existing tile reported as absent
                        Ok(_) => {}
                    }
                }
                first_err.map_or(Ok(()), Err)
            }
            let exists: Vec<bool> = ids.iter().map(|i| b.expected.contains_key(i)).collect();
            let o = catch(move || -> std::io::Result<()> {
                if a {
                    let mut pm = if partial { block_on(PMTiles::from_async_reader_partially(s2, lo..))? } else { block_on(PMTiles::from_async_reader(s2))? };
                    if get {
                        let rs: Vec<_> = ids.iter().map(|id| block_on(pm.get_tile_by_id_async(*id))).collect();
                        let failed = rs.iter().any(Result::is_err);
                        let verdict = seq(exists.iter().copied().zip(rs));
                        if failed && verdict.is_err() {
                            // re-writing the archive from the (still failing) source must fail as well
                            let mut out = futures::io::Cursor::new(Vec::new());
                            if block_on(pm.to_async_writer(&mut out)).is_ok() {
                                return Ok(());
                            }
                        }
                        verdict?;
                    }
                } else {
                    let mut pm = if partial { PMTiles::from_reader_partially(s2, lo..)? } else { PMTiles::from_reader(s2)? };
                    if get {
                        let rs: Vec<_> = ids.iter().map(|id| pm.get_tile_by_id(*id)).collect();
                        let failed = rs.iter().any(Result::is_err);
                        let verdict = seq(exists.iter().copied().zip(rs));
                        if failed && verdict.is_err() {
                            let mut out = std::io::Cursor::new(Vec::new());
                            if pm.to_writer(&mut out).is_ok() {
                                return Ok(());
                            }
                        }
                        verdict?;
                    }
                }
                Ok(())
            });
            (o.map(es), s)
        }
        Scen::WriteMem => {
            let mut s = mk_writer();
            let o = catch(|| -> std::io::Result<()> {
                if a {
                    let mut pm = PMTiles::new_async(pmtiles2::TileType::Png, pmtiles2::Compression::None);
                    pm.internal_compression = c;
                    for (id, (off, len)) in b.expected.iter().take(400) {
                        pm.add_tile(*id, b.bytes[*off as usize..*off as usize + *len as usize].to_vec())?;
                    }
                    block_on(pm.to_async_writer(&mut s))
                } else {
                    let mut pm = PMTiles::new(pmtiles2::TileType::Png, pmtiles2::Compression::None);
                    pm.internal_compression = c;
                    for (id, (off, len)) in b.expected.iter().take(400) {
                        pm.add_tile(*id, b.bytes[*off as usize..*off as usize + *len as usize].to_vec())?;
                    }
                    pm.to_writer(&mut s)
                }
            });
            (o.map(es), s)
        }
        Scen::WriteBacked => {
            let mut s = mk_writer();
            let src = b.bytes.clone();
            let o = catch(|| -> std::io::Result<()> {
                if a {
                    let mut pm = block_on(PMTiles::from_async_reader(futures::io::Cursor::new(src)))?;
                    pm.add_tile(3, vec![1, 2, 3])?;
                    block_on(pm.to_async_writer(&mut s))
                } else {
                    let mut pm = PMTiles::from_bytes(src)?;
                    pm.add_tile(3, vec![1, 2, 3])?;
                    pm.to_writer(&mut s)
                }
            });
            (o.map(es), s)
        }
        Scen::WriteSourceFaults => {
            // the *source* reader starts failing during to_writer; the output stream is healthy
            // (the source hands its data out in pieces of at most 700 bytes, as a network or pipe would)
            let s = Stream::new(b.bytes.clone(), 0, Sched { fail_from: None, caps: vec![700], cycle: true, ..sched.clone() }, keep_log);
            let s2 = s.clone();
            let s3 = s.clone();
            let mut base = 0u64;
            let o = catch(|| -> std::io::Result<()> {
                if a {
                    let pm = block_on(PMTiles::from_async_reader(s2))?;
                    base = s3.ops();
                    s3.with(|c| c.sched.fail_from = fail_at.map(|k| base + k));
                    let mut out = futures::io::Cursor::new(Vec::new());
                    block_on(pm.to_async_writer(&mut out))
                } else {
                    let pm = PMTiles::from_reader(s2)?;
                    base = s3.ops();
                    s3.with(|c| c.sched.fail_from = fail_at.map(|k| base + k));
                    let mut out = std::io::Cursor::new(Vec::new());
                    pm.to_writer(&mut out)
                }
            });
            base_ops = base;
            (o.map(es), s)
        }
    };
    let total = st.ops() - base_ops;
    (out, st, total)
}

fn check_fault(inst: &Inst, p: &Prep, k: u64) -> CaseResult {
    let (out, st, _) = exec(inst, &p.b, &p.entries, Sched::none(), Some(k), false, 0);
    let kind = if inst.asyncio { "async" } else { "sync" };
    let cname = codec::name(p.b.header.internal);
    match out {
        Err(pi) => fail!(format!("C15/panic-on-fault/{}/{kind}", inst.scen.name()), "fault at operation {k} of {}: panic {} at {}", p.n, pi.msg, pi.loc),
        Ok(Err(_)) => {}
        Ok(Ok(())) => {
            // carve-out: every fault-free operation from k on transferred zero bytes at end of stream
            let base = if inst.scen == Scen::WriteSourceFaults { p.log.len() - p.n as usize } else { 0 };
            let tail = &p.log[(base + k as usize).min(p.log.len())..];
            let only_eof_probes = !tail.is_empty() && tail.iter().all(|o| matches!(o, OpRec::Read { got: 0, .. }));
            if !only_eof_probes {
                // where in the fault-free log does the first failing operation lie relative to the flush?
                let flush_at = p.log.iter().position(|o| matches!(o, OpRec::Flush));
                let phase = match flush_at {
                    Some(f) if (base + k as usize) > f => "after-flush",
                    Some(_) => "before-flush",
                    None => "no-flush",
                };
                let compressed = if p.b.header.internal == 1 { "none" } else { "codec" };
                fail!(
                    format!("C15/ok-after-fault/{}/{kind}/{compressed}/{phase}", inst.scen.name()),
                    "operations {k}.. of {} fail ({} faults were returned to the callee) but the call reports success ({cname}); fault-free op {k} is {:?}",
                    p.n,
                    st.with(|c| c.faults_returned),
                    tail.first().map(short_op)
                );
            }
            return Ok(Meta::new(false).label(true, "carve-out-eof-probe"));
        }
    }
    Ok(Meta::new(k > 0 && k + 1 < p.n).label(true, scen_label(inst.scen)).label(inst.asyncio, "async").label(!inst.asyncio, "sync").label(true, super::c01::codec_label(p.b.header.internal)))
}

/// second fault kind: from operation k on the sink accepts nothing (`write` returns Ok(0)); only for scenarios
/// that write, and only for k after which the fault-free run still writes at least one byte
fn check_zero_write(inst: &Inst, p: &Prep, k: u64) -> CaseResult {
    // k = capacity of the sink in bytes, smaller than what the fault-free run writes
    let (out, _, _) = exec2(inst, &p.b, &p.entries, Sched::none(), None, Some(k), false, 0);
    let kind = if inst.asyncio { "async" } else { "sync" };
    match out {
        Err(pi) => fail!(format!("C15/panic-on-fault/{}/{kind}", inst.scen.name()), "sink of {k} bytes: panic {} at {}", pi.msg, pi.loc),
        Ok(Err(_)) => Ok(Meta::new(k > 0).label(true, "sink-full-zero-write").label(true, scen_label(inst.scen))),
        Ok(Ok(())) => {
            fail!(
                format!("C15/ok-after-sink-full/{}/{kind}", inst.scen.name()),
                "the output can hold only {k} of the {} bytes the complete output needs (writes beyond that return Ok(0)) but the call reports success ({})",
                p.out_len,
                codec::name(p.b.header.internal)
            )
        }
    }
}

fn is_write_scenario(s: Scen) -> bool {
    matches!(s, Scen::HeaderWrite | Scen::DirWrite | Scen::WriteDirs | Scen::WriteDirsSpill | Scen::WriteMem | Scen::WriteBacked)
}

fn short_op(o: &OpRec) -> String {
    match o {
        OpRec::Write { pos, bytes } => format!("Write{{pos:{pos},len:{}}}", bytes.len()),
        other => format!("{other:?}"),
    }
}

fn scen_label(s: Scen) -> &'static str {
    match s {
        Scen::HeaderRead | Scen::HeaderWrite => "scenario-header",
        Scen::DirRead | Scen::DirWrite => "scenario-directory",
        Scen::ReadDirs => "scenario-read_directories",
        Scen::WriteDirs | Scen::WriteDirsSpill => "scenario-write_directories",
        Scen::Open | Scen::OpenPartial => "scenario-open",
        Scen::OpenAndGet => "scenario-get_tile",
        Scen::WriteMem | Scen::WriteBacked | Scen::WriteSourceFaults => "scenario-to_writer",
    }
}

pub fn prepare(inst: &Inst) -> Result<Prep, Fail> {
    let b = writer::build(&inst.lay);
    let entries: Vec<pmtiles2::Entry> = if inst.scen == Scen::WriteDirsSpill {
        spill_entries(u64::from(inst.lay.leaf_shuffle) + 1)
    } else {
        b.tile_entries.iter().map(|e| pmtiles2::Entry { tile_id: e.id, offset: e.off, length: e.len, run_length: e.run }).collect()
    };
    let (out, st, n) = exec(inst, &b, &entries, Sched::none(), None, true, 0);
    match out {
        Ok(Ok(())) => {}
        Ok(Err(e)) => fail!("C15/harness", "fault-free run of {} failed: {e}", inst.scen.name()),
        Err(p) => fail!("C15/harness", "fault-free run of {} panicked: {} at {}", inst.scen.name(), p.msg, p.loc),
    }
    let out_len = st.with(|c| c.data.len() as u64);
    Ok(Prep { b, entries, n, log: st.log(), out_len })
}

pub fn instances(ctx: &Ctx) -> Vec<Inst> {
    let per = ctx.tier.pick(3, 10);
    let mut out = Vec::new();
    let lays = sample(ctx.seed ^ 0xC15, per * 4, &layout::layout(LGen { max_entries: ctx.tier.pick(120, 600), big_runs: false }));
    for (li, lay) in lays.into_iter().enumerate() {
        let mut lay = lay;
        lay.internal = 1 + (li % 4) as u8; // all four codecs, evenly
        if li % 3 == 0 {
            lay.depth = lay.depth.max(2); // make sure archives with leaves occur
        }
        for scen in ALL_SCEN {
            for asyncio in [false, true] {
                // uncompressed spill writes varint by varint (tens of thousands of operations): thorough only
                if scen == Scen::WriteDirsSpill && lay.internal == 1 && ctx.tier == crate::engine::Tier::Quick {
                    continue;
                }
                if scen == Scen::WriteDirsSpill && li >= 8 {
                    continue;
                }
                out.push(Inst { scen, asyncio, lay: lay.clone() });
            }
        }
    }
    out
}


// ---- the source stream ends early ------------------------------------------------------------------

/// An archive whose backing stream ends inside the tile data (a download cut short, a file still being
/// copied): header and directories arrive completely, some tile contents do not.
#[derive(Clone, Debug, Serialize, Deserialize)]
pub struct EndsEarly {
    pub lay: Layout,
    /// length of one big content put into the pool (0: leave the pool alone)
    pub big: u32,
    /// which tile the stream ends in, and where inside it
    pub tile: u16,
    pub at: u16,
    pub asyncio: bool,
    /// short-transfer schedule of the source (empty: every read is served in full)
    pub caps: Vec<u32>,
    /// 1 (mod 4): the stream ends exactly where a directory (root or leaf, chosen by `tile`) starts instead
    #[serde(default)]
    pub cut_kind: u8,
}

fn check_ends_early(c: &EndsEarly) -> CaseResult {
    let mut lay = c.lay.clone();
    if c.big > 0 && !lay.pool.is_empty() {
        lay.pool[0] = crate::model::content::ContentSpec { kind: 0, len: c.big, seed: 91 };
        if lay.data_mode % 4 == 2 {
            lay.data_mode = 0;
        }
        // make sure some entry uses it
        if let Some(e) = lay.entries.first_mut() {
            e.sel = 0;
        }
    }
    let b = writer::build(&lay);
    if b.expected.is_empty() {
        return Ok(Meta::new(false).label(true, "no-tiles"));
    }
    if c.cut_kind % 4 == 1 {
        // the source ends exactly where one of the directories starts: that directory was not transferred at all,
        // so opening has to fail (an archive with an "empty" directory in its place would silently lack tiles)
        let k = usize::from(c.tile) * b.dirs.len() >> 16;
        let t = b.dirs[k].abs_off as usize;
        let cut = b.bytes[..t].to_vec();
        let sched = Sched { caps: c.caps.clone(), cycle: true, ..Sched::none() };
        let kind = if c.asyncio { "async" } else { "sync" };
        let opened = if c.asyncio {
            guarded("from_async_reader", || block_on(PMTiles::from_async_reader(Stream::reader(cut.clone(), sched.clone()))).map(|pm| pm.num_tiles()))?
        } else {
            guarded("from_reader", || PMTiles::from_reader(Stream::reader(cut.clone(), sched.clone())).map(|pm| pm.num_tiles()))?
        };
        if let Ok(n) = opened {
            fail!(format!("C15/ok-after-stream-end/open/{kind}"), "the source ends at byte {t}, where directory {k} of {} starts, and the archive opens with {n} of {} tiles", b.dirs.len(), b.expected.len());
        }
        return Ok(Meta::new(true).label(true, "source-ends-at-a-directory-start").label(k > 0, "source-ends-at-a-leaf-directory-start").label(c.asyncio, "async").label(!c.asyncio, "sync"));
    }
    let ids: Vec<u64> = b.expected.keys().copied().collect();
    let victim = ids[usize::from(c.tile) * ids.len() >> 16];
    let (voff, vlen) = b.expected[&victim];
    // the stream ends strictly inside the victim's bytes (or right at their start)
    let t = voff + (u64::from(c.at) * u64::from(vlen) >> 16);
    let cut = b.bytes[..t as usize].to_vec();
    let sched = Sched { caps: c.caps.clone(), cycle: true, ..Sched::none() };
    let complete = |id: &u64| {
        let (o, l) = b.expected[id];
        o + u64::from(l) <= t
    };
    let probe: Vec<u64> = {
        let mut v: Vec<u64> = ids.iter().step_by(ids.len() / 40 + 1).copied().collect();
        v.extend([victim, victim]);
        v
    };
    let kind = if c.asyncio { "async" } else { "sync" };
    let any_cut = ids.iter().any(|i| !complete(i));
    type Got = (Vec<std::io::Result<Option<Vec<u8>>>>, std::io::Result<()>);
    let res: std::io::Result<Got> = if c.asyncio {
        guarded("open+get_tile_by_id_async+to_async_writer", || -> std::io::Result<Got> {
            let mut pm = block_on(PMTiles::from_async_reader(Stream::reader(cut.clone(), sched.clone())))?;
            let rs = probe.iter().map(|id| block_on(pm.get_tile_by_id_async(*id))).collect();
            let mut out = futures::io::Cursor::new(Vec::new());
            let w = block_on(pm.to_async_writer(&mut out));
            Ok((rs, w))
        })?
    } else {
        guarded("open+get_tile_by_id+to_writer", || -> std::io::Result<Got> {
            let mut pm = PMTiles::from_reader(Stream::reader(cut.clone(), sched.clone()))?;
            let rs = probe.iter().map(|id| pm.get_tile_by_id(*id)).collect();
            let mut out = std::io::Cursor::new(Vec::new());
            let w = pm.to_writer(&mut out);
            Ok((rs, w))
        })?
    };
    let opened = res.is_ok();
    let mut cut_lookups = 0;
    if let Ok((rs, w)) = res {
        for (id, r) in probe.iter().zip(rs) {
            let (o, l) = b.expected[id];
            let want = &b.bytes[o as usize..(o + u64::from(l)) as usize];
            let whole = complete(id);
            if !whole {
                cut_lookups += 1;
            }
            match r {
                Err(_) => {}
                Ok(None) => fail!(format!("C15/ok-after-stream-end/get_tile/{kind}/reported-absent"), "tile {id} (bytes {o}..+{l}) looked up on a stream that ends at {t}: Ok(None)"),
                Ok(Some(g)) => {
                    ensure!(whole, format!("C15/ok-after-stream-end/get_tile/{kind}"), "tile {id} needs bytes {o}..+{l} but the stream ends at {t}: Ok with {} bytes", g.len());
                    ensure!(g == want, format!("C15/ok-after-stream-end/get_tile/{kind}/wrong-bytes"), "tile {id} (completely available) differs: {} bytes for {l}", g.len());
                }
            }
        }
        if any_cut {
            ensure!(w.is_err(), format!("C15/ok-after-stream-end/to_writer/{kind}"), "re-writing an archive whose source ends at {t} (tile {victim} needs {voff}..+{vlen}) returned Ok");
        }
    }
    Ok(Meta::new(opened && cut_lookups > 0)
        .label(opened, "source-ends-early/opened")
        .label(!opened, "source-ends-early/open-refused")
        .label(vlen > 65_536, "source-ends-early/inside-tile>64KiB")
        .label(vlen > 1 << 20, "source-ends-early/inside-tile>1MiB")
        .label(!c.caps.is_empty(), "source-ends-early/short-reads")
        .label(c.asyncio, "async")
        .label(!c.asyncio, "sync"))
}

fn ends_early_strategy(max_big: u32) -> impl Strategy<Value = EndsEarly> {
    (
        layout::layout(LGen { max_entries: 60, big_runs: false }),
        prop_oneof![3 => Just(0u32), 2 => 60_000u32..140_000, 1 => 140_000u32..=max_big],
        any::<u16>(),
        prop_oneof![1 => Just(0u16), 1 => Just(u16::MAX), 4 => any::<u16>()],
        any::<bool>(),
        prop_oneof![2 => Just(vec![]), 1 => proptest::collection::vec(prop_oneof![1u32..50, 50u32..70_000], 1..4)],
        0u8..4,
    )
        .prop_map(|(lay, big, tile, at, asyncio, caps, cut_kind)| EndsEarly { lay, big, tile, at, asyncio, caps, cut_kind })
}

pub fn run(ctx: &Ctx) {
    ctx.rec.set_rule(
        "fail-stop fault enumeration: for every scenario {Header read/write, Directory read/write, util::read_directories, util::write_directories with and without spill, \
         PMTiles::from_reader(_partially), get_tile_by_id, PMTiles::to_writer from in-memory and reader-backed sources, to_writer while the *source* reader fails} x 4 internal \
         compressions x sync/async x sampled foreign-layout inputs (root-only and with leaves), the fault-free run is recorded (N stream operations) and for EVERY k < N the \
         run in which operations k, k+1, ... fail is executed; the call must return Err. Carve-out: Ok is tolerated only if every fault-free operation from k on transferred \
         zero bytes at end of stream. Non-trivial: 0 < k < N-1. Cases (instance, k) are distinct by construction and counted. \
         Further passes: (2) a fixed-size sink of every capacity below the needed size (uncompressed write scenarios); (3) generated archives whose source stream *ends* \
         inside a generated tile (tiles up to several hundred KiB / MiB, optional short-read schedule, sync and async): a lookup of a tile whose bytes are not all there \
         must be Err (never Ok with fewer bytes, never reported absent), tiles that are completely there must come back exact, and re-writing the archive must be Err; \
         in a quarter of the cases the stream ends exactly where a root or leaf directory starts instead, and opening must be Err.",
    );
    ctx.rec.assume("streams are the in-memory model harness/src/sio; a fault is an io::Error returned from read/write/seek/flush/close, permanently from index k on");
    let insts = instances(ctx);
    let mut preps: Vec<(Inst, Prep)> = Vec::new();
    let cap: u64 = ctx.tier.pick(6_000, 120_000);
    let mut skipped = 0u64;
    for i in insts {
        match prepare(&i) {
            Ok(p) => {
                if p.n > cap {
                    skipped += 1;
                    continue;
                }
                preps.push((i, p));
            }
            Err(f) => ctx.rec.violation(&ctx.verif_dir, ctx.prop, "fault-free-baseline", &f, serde_json::to_value(&i).unwrap_or(Value::Null)),
        }
    }
    if skipped > 0 {
        ctx.rec.exclude("instances whose fault-free run needs more stream operations than this tier's cap (quadratic cost); covered by the thorough tier", skipped);
    }
    preps.sort_by_key(|(_, p)| p.n);
    let mut prefix: Vec<u64> = Vec::with_capacity(preps.len() + 1);
    let mut tot = 0u64;
    for (_, p) in &preps {
        prefix.push(tot);
        tot += p.n;
    }
    prefix.push(tot);
    ctx.rec.observe("instances", json!(preps.len()));
    ctx.rec.observe("operations_per_instance_min_max", json!([preps.first().map(|p| p.1.n), preps.last().map(|p| p.1.n)]));
    let locate = |i: u64| -> (usize, u64) {
        let idx = match prefix.binary_search(&i) {
            Ok(mut x) => {
                while x + 1 < prefix.len() && prefix[x + 1] == i {
                    x += 1;
                }
                x
            }
            Err(x) => x - 1,
        };
        (idx, i - prefix[idx])
    };
    run_indexed(
        ctx,
        "every-fault-index",
        tot,
        true,
        64,
        |i| {
            let (idx, k) = locate(i);
            check_fault(&preps[idx].0, &preps[idx].1, k)
        },
        |i| {
            let (idx, k) = locate(i);
            json!({"inst": preps[idx].0, "k": k, "n": preps[idx].1.n})
        },
    );
    // second pass: the sink is full (zero-length writes) from operation k on
    // uncompressed scenarios only: a codec's own write loop may spin on a sink that keeps answering Ok(0) (brotli's does),
    // which is the codec crate's behaviour and not an I/O *error* in the sense of the property
    let wr: Vec<usize> = (0..preps.len()).filter(|i| is_write_scenario(preps[*i].0.scen) && preps[*i].1.b.header.internal == 1).collect();
    let wr: Vec<usize> = wr.into_iter().filter(|i| preps[*i].1.out_len <= 6000).collect();
    let mut wprefix: Vec<u64> = vec![0];
    for i in &wr {
        wprefix.push(wprefix.last().unwrap() + preps[*i].1.out_len);
    }
    let wtot = *wprefix.last().unwrap();
    let wlocate = |i: u64| -> (usize, u64) {
        let idx = wprefix.partition_point(|p| *p <= i) - 1;
        (wr[idx], i - wprefix[idx])
    };
    run_indexed(
        ctx,
        "every-sink-full-index",
        wtot,
        true,
        64,
        |i| {
            let (idx, k) = wlocate(i);
            check_zero_write(&preps[idx].0, &preps[idx].1, k)
        },
        |i| {
            let (idx, k) = wlocate(i);
            json!({"inst": preps[idx].0, "k": k, "n": preps[idx].1.out_len, "fault": "fixed-size sink of k bytes"})
        },
    );
    // third pass: the source simply ends (no error value from the stream itself) inside the tile data
    run_proptest(ctx, "source-ends-early", PtCfg::new(ctx.lanes, ctx.tier.pick(150, 4000)), || ends_early_strategy(ctx.tier.pick(300_000, 3 << 20)), check_ends_early);
    ctx.rec.floor("source-ends-early/opened", 20);
    ctx.rec.floor("source-ends-at-a-leaf-directory-start", 20);
    ctx.rec.floor("source-ends-early/inside-tile>64KiB", 20);
    ctx.rec.floor("sink-full-zero-write", 20);
    for c in ["scenario-header", "scenario-directory", "scenario-read_directories", "scenario-write_directories", "scenario-open", "scenario-get_tile", "scenario-to_writer", "async", "sync", "internal-brotli", "internal-gzip", "internal-zstd", "internal-none"] {
        ctx.rec.floor(c, 20);
    }
}

pub fn replay(sub: &str, case: &Value) -> Option<CaseResult> {
    match sub {
        "every-fault-index" => {
            let inst: Inst = super::de(case.get("inst")?)?;
            let k = case.get("k")?.as_u64()?;
            Some(prepare(&inst).and_then(|p| check_fault(&inst, &p, k)))
        }
        "every-sink-full-index" => {
            let inst: Inst = super::de(case.get("inst")?)?;
            let k = case.get("k")?.as_u64()?;
            Some(prepare(&inst).and_then(|p| check_zero_write(&inst, &p, k)))
        }
        "source-ends-early" => Some(check_ends_early(&super::de(case)?)),
        "fault-free-baseline" => {
            let inst: Inst = super::de(case)?;
            Some(prepare(&inst).map(|_| Meta::new(false)))
        }
        _ => None,
    }
}
