//! C16 — output bytes are a canonical function of the archive's logical content.

use crate::engine::{guarded, hex, run_list, run_proptest, CaseResult, Ctx, Fail, Meta, PtCfg};
use crate::libx::Arch;
use crate::model::logical::{self, Gen, Logical};
use crate::model::pick;
use proptest::prelude::*;
use serde::{Deserialize, Serialize};
use serde_json::Value;

#[derive(Clone, Copy, Debug, Serialize, Deserialize)]
pub enum Detour {
    /// add a junk id (not in the archive) with some content, remove it later
    Junk(u16, u16),
    /// add the wrong content for tile k first, the right one later
    WrongFirst(u16, u16),
    /// add tile k's content under another (junk) id as well, remove that id later
    Alias(u16, u16),
    /// remove tile k after adding it and add it again
    ReAdd(u16),
    /// look tile k (and its neighbour) up in the middle of the history - lookups are not edits
    Lookup(u16),
}

#[derive(Clone, Debug, Serialize, Deserialize)]
pub struct Case {
    pub l: Logical,
    pub seed2: u32,
    pub detours: Vec<Detour>,
    /// save + reopen after this fraction (x/65536) of history B's steps; None = never
    pub reopen_at: Option<u16>,
    pub reopen_async: bool,
    pub asyncw: bool,
    /// 1-4: the intermediate save of history B uses this internal compression (and another tile type); the
    /// original settings are set again after the reopen, so both histories still end in the same state
    #[serde(default)]
    pub detour_internal: u8,
}

enum Step {
    Add(u64, Vec<u8>),
    Remove(u64),
    Lookup(u64),
}

fn junk_id(l: &Logical, sel: u16) -> u64 {
    // an id that is not part of the archive
    let mut id = 1_000_003u64.wrapping_mul(u64::from(sel) + 1) % crate::spec::hilbert::domain_end();
    while l.tiles.iter().any(|(t, _)| *t == id) {
        id += 1;
    }
    id
}

/// history B as a step list
fn history_b(c: &Case) -> Vec<Step> {
    let l = &c.l;
    let contents = l.contents();
    let mut steps: Vec<Step> = Vec::new();
    let mut tail: Vec<Step> = Vec::new();
    let order = l.insertion_order(c.seed2 | 1);
    let wrong: Vec<(usize, usize)> = c.detours.iter().filter_map(|d| if let Detour::WrongFirst(k, w) = d { Some((pick(*k, l.tiles.len().max(1)), pick(*w, contents.len()))) } else { None }).collect();
    for d in &c.detours {
        match d {
            Detour::Junk(j, cs) => {
                let id = junk_id(l, *j);
                steps.push(Step::Add(id, contents[pick(*cs, contents.len())].clone()));
                tail.push(Step::Remove(id));
            }
            Detour::Alias(k, j) if !l.tiles.is_empty() => {
                let (_, s) = l.tiles[pick(*k, l.tiles.len())];
                let id = junk_id(l, j.wrapping_add(7));
                steps.push(Step::Add(id, contents[l.pool_index(s)].clone()));
                tail.push(Step::Remove(id));
            }
            _ => {}
        }
    }
    for i in order {
        let (id, s) = l.tiles[i];
        if let Some((_, w)) = wrong.iter().find(|(k, _)| *k == i) {
            steps.push(Step::Add(id, contents[*w].clone()));
        }
        steps.push(Step::Add(id, contents[l.pool_index(s)].clone()));
        for d in &c.detours {
            if let Detour::Lookup(k) = d {
                if !l.tiles.is_empty() && pick(*k, l.tiles.len()) == i {
                    // every id added so far that shares this content, then this id
                    for (oid, os) in l.tiles.iter().take(40) {
                        if l.pool_index(*os) == l.pool_index(s) {
                            steps.push(Step::Lookup(*oid));
                        }
                    }
                    steps.push(Step::Lookup(id));
                }
            }
            if let Detour::ReAdd(k) = d {
                if !l.tiles.is_empty() && pick(*k, l.tiles.len()) == i {
                    steps.push(Step::Remove(id));
                    steps.push(Step::Add(id, contents[l.pool_index(s)].clone()));
                }
            }
        }
    }
    // lookups of the junk / alias ids right before they are removed again (a lookup must not change the store)
    let mut out = steps;
    for t in &tail {
        if let Step::Remove(id) = t {
            out.push(Step::Lookup(*id));
        }
    }
    if c.detours.iter().any(|d| matches!(d, Detour::Lookup(_))) {
        for (id, _) in l.tiles.iter().take(30) {
            out.push(Step::Lookup(*id));
        }
    }
    out.extend(tail);
    out
}

fn run_b(c: &Case) -> Result<Vec<u8>, Fail> {
    let steps = history_b(c);
    let mut a = if c.asyncw { Arch::new_async() } else { Arch::new_sync() };
    a.set_fields(&c.l.fields());
    let cut = c.reopen_at.map(|f| pick(f, steps.len() + 1));
    let mut reopened = false;
    for (k, st) in steps.iter().enumerate() {
        if Some(k) == cut {
            if (1..=4).contains(&c.detour_internal) {
                let mut f = c.l.fields();
                f.internal = c.detour_internal;
                f.tile_type = (f.tile_type + 1) % 5;
                a.set_fields(&f);
            }
            let bytes = guarded("to_writer", || a.write())?.map_err(|e| Fail::new("C16/write-err", format!("{e}")))?;
            // the handle kind decides the writer kind: keep it equal to history A's
            a = match (c.asyncw, c.reopen_async) {
                (true, _) => guarded("open", || Arch::open_async(bytes))?,
                (false, _) => guarded("open", || Arch::open_sync(bytes))?,
            }
            .map_err(|e| Fail::new("C16/open-err", format!("{e}")))?;
            reopened = true;
        }
        match st {
            Step::Add(id, content) => a.add(*id, content.clone()).map_err(|e| Fail::new("C16/harness", format!("{e}")))?,
            Step::Remove(id) => a.remove(*id),
            Step::Lookup(id) => {
                let _ = guarded("get_tile_by_id", || a.get(*id))?;
            }
        }
    }
    if reopened {
        // settings survive a reopen except that coordinates are quantised; set the original values again so
        // that both histories end in the same logical state by construction
        a.set_fields(&c.l.fields());
    }
    guarded("to_writer", || a.write())?.map_err(|e| Fail::new("C16/write-err", format!("{e}")))
}

/// Library calls that have nothing to do with the archive under test (results ignored, panics contained).
fn unrelated_activity(seed: u64, n: usize) {
    use pmtiles2::util::WriteDirsOverflowStrategy;
    let _ = crate::engine::catch(|| {
        let es = super::c06::entropy_entries(seed ^ 0xac71, n);
        let entries: Vec<pmtiles2::Entry> = Vec::from(super::c05::to_lib(&es));
        for start in [Some(8192usize), Some(100_000), Some(1), None] {
            let mut out = std::io::Cursor::new(Vec::new());
            let _ = pmtiles2::util::write_directories(&mut out, &entries[..if start == Some(1) { entries.len().min(300) } else { entries.len() }], pmtiles2::Compression::None, Some(WriteDirsOverflowStrategy::OnlyLeafPointers { start_size: start }));
            let mut out = futures::io::Cursor::new(Vec::new());
            let _ = futures::executor::block_on(pmtiles2::util::write_directories_async(&mut out, &entries[..if start == Some(1) { entries.len().min(300) } else { entries.len() }], pmtiles2::Compression::GZip, Some(WriteDirsOverflowStrategy::OnlyLeafPointers { start_size: start })));
        }
        let other = logical::large(n * 5 / 6 + (seed % 7) as usize * 30, seed ^ 0x0f0f, 1 + (seed % 4) as u8);
        let _ = super::c01::write_logical(&other, seed % 2 == 0);
        // a directory the library refuses (entry of length 0), sync and async, and an unserialisable header
        let mut bad = entries[..entries.len().min(20)].to_vec();
        if let Some(e) = bad.get_mut(3) {
            e.length = 0;
        }
        let bd = pmtiles2::Directory::from(bad);
        let _ = bd.to_writer(&mut std::io::Cursor::new(Vec::new()), pmtiles2::Compression::GZip);
        let _ = futures::executor::block_on(bd.to_async_writer(&mut futures::io::Cursor::new(Vec::new()), pmtiles2::Compression::None));
        let _ = pmtiles2::util::write_directories(&mut std::io::Cursor::new(Vec::new()), &Vec::from(bd), pmtiles2::Compression::None, None);
        let blob = pmtiles2::util::compress_all(pmtiles2::Compression::ZStd, &seed.to_le_bytes());
        if let Ok(b) = blob {
            let _ = pmtiles2::util::decompress_all(pmtiles2::Compression::ZStd, &b);
        }
    });
}

fn first_diff(a: &[u8], b: &[u8]) -> String {
    let at = a.iter().zip(b).position(|(x, y)| x != y).unwrap_or(a.len().min(b.len()));
    format!("lengths {} vs {}, first difference at byte {at}", a.len(), b.len())
}

fn check(c: &Case) -> CaseResult {
    let l = &c.l;
    let a_bytes = super::c01::write_logical(l, c.asyncw).map_err(|f| Fail::new(f.sig.replace("C01/", "C16/"), f.msg))?;
    // between the two histories the process does unrelated work with the library (other directories with other
    // leaf sizes, another archive, the codecs): nothing of it may show in the bytes of history B
    if l.tiles.len() > 4096 {
        unrelated_activity(u64::from(c.seed2), 6000);
    } else if c.seed2 % 8 == 0 {
        unrelated_activity(u64::from(c.seed2), 200);
    }
    // 1. a second, differently ordered history with detours / reopen
    let b_bytes = run_b(c)?;
    if a_bytes != b_bytes {
        let cls = if c.reopen_at.is_some() { "reopen" } else if c.detours.is_empty() { "order" } else { "detour" };
        fail!(format!("C16/histories-differ/{cls}"), "two histories reaching the same logical archive serialise differently: {}", first_diff(&a_bytes, &b_bytes));
    }
    // 2. the same history again (fresh hash-map seeds)
    let a2 = super::c01::write_logical(l, c.asyncw).map_err(|f| Fail::new(f.sig.replace("C01/", "C16/"), f.msg))?;
    ensure!(a2 == a_bytes, "C16/same-history-differs", "writing the same history twice gives different bytes: {}", first_diff(&a_bytes, &a2));
    // 3. rewrite: to_writer(from_bytes(b)) == b  (same writer kind)
    let re = {
        let opened = guarded("open", || if c.asyncw { Arch::open_async(a_bytes.clone()) } else { Arch::open_sync(a_bytes.clone()) })?.map_err(|e| Fail::new("C16/open-err", format!("{e}")))?;
        guarded("to_writer", || opened.write())?.map_err(|e| Fail::new("C16/write-err", format!("{e}")))?
    };
    if re != a_bytes {
        let hdr_only = re.len() == a_bytes.len() && re[127..] == a_bytes[127..];
        let cls = if hdr_only { "header" } else { "body" };
        fail!(format!("C16/rewrite-differs/{cls}"), "writing an archive that was just read back changes the bytes: {}", first_diff(&a_bytes, &re));
    }
    let dup = l.has_dup();
    let more_than_order = !c.detours.is_empty() || c.reopen_at.is_some();
    Ok(Meta::new(l.tiles.len() >= 3 && dup && more_than_order)
        .label(c.reopen_at.is_some(), "reopen-in-between")
        .label(c.reopen_at.is_some() && (1..=4).contains(&c.detour_internal) && c.detour_internal != l.settings.internal, "intermediate-save-under-another-compression")
        .label(!c.detours.is_empty(), "detours")
        .label(dup, "dup-content")
        .label(c.asyncw, "writer-async")
        .label(super::c01::spilled(&a_bytes), "leaf-spill")
        .label(true, super::c01::codec_label(l.settings.internal)))
}


// ---- tiles in a foreign backing archive vs the same tiles in memory ----------------------

#[derive(Clone, Debug, Serialize, Deserialize)]
pub struct FCase {
    pub l: crate::spec::writer::Layout,
    pub asyncw: bool,
}

/// A spec-valid archive from another writer, opened and saved (all tiles served by the backing reader), must give
/// the bytes of an archive with the same tiles, metadata and settings that was built in memory.
fn check_foreign(c: &FCase) -> CaseResult {
    let b = crate::spec::writer::build(&c.l);
    let total: u64 = b.expected.values().map(|(_, n)| u64::from(*n)).sum();
    if total > 24 << 20 || b.expected.len() > 20_000 {
        return Ok(Meta::new(false).label(true, "foreign-archive-too-big-skipped"));
    }
    let opened = guarded("open", || if c.asyncw { Arch::open_async(b.bytes.clone()) } else { Arch::open_sync(b.bytes.clone()) })?.map_err(|e| Fail::new("C16/open-err", format!("{e}")))?;
    let fields = opened.fields();
    let backed = guarded("to_writer", || opened.write())?.map_err(|e| Fail::new("C16/write-err", format!("{e}")))?;
    let mut mem = if c.asyncw { Arch::new_async() } else { Arch::new_sync() };
    mem.set_fields(&fields);
    for (id, (off, len)) in &b.expected {
        mem.add(*id, b.bytes[*off as usize..*off as usize + *len as usize].to_vec()).map_err(|e| Fail::new("C16/harness", format!("{e}")))?;
    }
    let in_memory = guarded("to_writer", || mem.write())?.map_err(|e| Fail::new("C16/write-err", format!("{e}")))?;
    if backed != in_memory {
        fail!("C16/backed-differs-from-in-memory/foreign-source", "the archive re-saved from its (foreign) backing archive and the same archive built in memory serialise differently: {}", first_diff(&backed, &in_memory));
    }
    // the backing stream is shared with another user (a second handle on the same file): between a lookup and the
    // save its position is moved from outside; the lowest tile is replaced in memory, so the save starts with the
    // second one
    let mut shared_stream = false;
    if b.expected.len() >= 2 {
        use crate::sio::{Sched, Stream};
        let st = Stream::reader(b.bytes.clone(), Sched::none());
        let first = *b.expected.keys().next().unwrap_or(&0);
        let newc = vec![0xC1u8, 0x6E, 7];
        let written: std::io::Result<Vec<u8>> = if c.asyncw {
            guarded("from_async_reader+get+add+to_async_writer", || -> std::io::Result<Vec<u8>> {
                let mut pm = futures::executor::block_on(pmtiles2::PMTiles::from_async_reader(st.clone()))?;
                let _ = futures::executor::block_on(pm.get_tile_by_id_async(first))?;
                st.with(|k| k.pos = 5);
                pm.add_tile(first, newc.clone())?;
                let mut out = futures::io::Cursor::new(Vec::new());
                futures::executor::block_on(pm.to_async_writer(&mut out))?;
                Ok(out.into_inner())
            })?
        } else {
            guarded("from_reader+get+add+to_writer", || -> std::io::Result<Vec<u8>> {
                let mut pm = pmtiles2::PMTiles::from_reader(st.clone())?;
                let _ = pm.get_tile_by_id(first)?;
                st.with(|k| k.pos = 5);
                pm.add_tile(first, newc.clone())?;
                let mut out = std::io::Cursor::new(Vec::new());
                pm.to_writer(&mut out)?;
                Ok(out.into_inner())
            })?
        };
        let written = written.map_err(|e| Fail::new("C16/write-err", format!("shared backing stream: {e}")))?;
        let mut mem2 = if c.asyncw { Arch::new_async() } else { Arch::new_sync() };
        mem2.set_fields(&fields);
        for (id, (off, len)) in &b.expected {
            let content = if *id == first { newc.clone() } else { b.bytes[*off as usize..*off as usize + *len as usize].to_vec() };
            mem2.add(*id, content).map_err(|e| Fail::new("C16/harness", format!("{e}")))?;
        }
        let twin = guarded("to_writer", || mem2.write())?.map_err(|e| Fail::new("C16/write-err", format!("{e}")))?;
        if written != twin {
            fail!("C16/backed-differs-from-in-memory/shared-backing-stream", "archive saved from a backing stream whose position was moved by another user differs from the same archive built in memory: {}", first_diff(&written, &twin));
        }
        shared_stream = true;
    }
    let f = &b.facts;
    Ok(Meta::new(b.expected.len() >= 2)
        .label(shared_stream, "backing-stream-shared-with-another-user")
        .label(true, "tiles-in-foreign-backing-archive")
        .label(f.prefix_overlap, "same-offset-different-length")
        .label(f.shared_offset, "shared-offset")
        .label(c.asyncw, "writer-async")
        .label(true, super::c01::codec_label(c.l.internal)))
}

// ---- cross-process ---------------------------------------------------------------------

#[derive(Clone, Debug, Serialize, Deserialize)]
pub struct XCase {
    pub l: Logical,
    pub asyncw: bool,
}

pub fn emit_main(file: &str) -> ! {
    let ok = (|| -> Option<()> {
        let b = std::fs::read(file).ok()?;
        let c: XCase = serde_json::from_slice(&b).ok()?;
        let bytes = super::c01::write_logical(&c.l, c.asyncw).ok()?;
        println!("{}", hex(&bytes));
        Some(())
    })();
    std::process::exit(if ok.is_some() { 0 } else { 3 })
}

fn check_cross(ctx: &Ctx, c: &XCase, idx: usize) -> CaseResult {
    let here = super::c01::write_logical(&c.l, c.asyncw).map_err(|f| Fail::new(f.sig.replace("C01/", "C16/"), f.msg))?;
    let dir = ctx.verif_dir.join("work");
    let _ = std::fs::create_dir_all(&dir);
    let path = dir.join(format!("c16-x-{}-{}.json", std::process::id(), idx));
    std::fs::write(&path, serde_json::to_vec(c).unwrap_or_default()).map_err(|e| Fail::new("C16/INFRA/io", format!("{e}")))?;
    let exe = std::env::current_exe().map_err(|e| Fail::new("C16/INFRA/io", format!("{e}")))?;
    let mut outs = Vec::new();
    for _ in 0..2 {
        let o = std::process::Command::new(&exe).arg("emit").arg(&path).output().map_err(|e| Fail::new("C16/INFRA/io", format!("spawn: {e}")))?;
        if !o.status.success() {
            let _ = std::fs::remove_file(&path);
            fail!("C16/harness", "emit process failed: {:?}", o.status);
        }
        outs.push(String::from_utf8_lossy(&o.stdout).trim().to_string());
    }
    let _ = std::fs::remove_file(&path);
    let h = hex(&here);
    ensure!(outs[0] == outs[1], "C16/cross-process-differs", "two freshly spawned processes serialise the same archive differently");
    ensure!(outs[0] == h, "C16/cross-process-differs", "a freshly spawned process serialises the archive differently from this process");
    Ok(Meta::new(true).label(true, "cross-process"))
}

fn strategy(g: Gen) -> impl Strategy<Value = Case> {
    let det = prop_oneof![
        (any::<u16>(), any::<u16>()).prop_map(|(a, b)| Detour::Junk(a, b)),
        (any::<u16>(), any::<u16>()).prop_map(|(a, b)| Detour::WrongFirst(a, b)),
        (any::<u16>(), any::<u16>()).prop_map(|(a, b)| Detour::Alias(a, b)),
        any::<u16>().prop_map(Detour::ReAdd),
        any::<u16>().prop_map(Detour::Lookup),
        any::<u16>().prop_map(Detour::Lookup),
    ];
    (logical::logical(g), any::<u32>(), proptest::collection::vec(det, 0..5), proptest::option::weighted(0.5, any::<u16>()), any::<bool>(), any::<bool>(), prop_oneof![2 => Just(0u8), 1 => 1u8..=4])
        .prop_map(|(l, seed2, detours, reopen_at, reopen_async, asyncw, detour_internal)| Case { l, seed2, detours, reopen_at, reopen_async, asyncw, detour_internal })
}

pub fn run(ctx: &Ctx) {
    ctx.rec.set_rule(
        "logical archive recipes (as C01) x a second history reaching the same state: another insertion permutation, detours (junk id added and removed, wrong content \
         first, the same content under another id that is removed again, remove and re-add), optional save+reopen in the middle (tiles reader-backed on one side only; the intermediate save optionally under another internal compression and tile type, \
         the original settings restored afterwards) x 4 \
         internal compressions x sync / async writer (each against itself); the same history twice; unrelated library work between the two histories (other directories with other leaf sizes, another archive, the codecs); rewrite of a just-read archive; foreign layouts (C03's generator: undeduplicated, reverse-ordered, prefix-overlapping tile data, runs, leaves) \
         opened and saved against the same tiles, metadata and settings built in memory; large archives with leaf spill; and \
         cross-process: the recipe is serialised by two freshly spawned `vcheck emit` processes. Oracle: byte equality. Non-trivial: >= 3 tiles with a duplicated content and \
         histories that differ in more than order, or a cross-process case; distinct by digest.",
    );
    let g = Gen { max_tiles: ctx.tier.pick(200, 600), allow_big: false, allow_adv: false, full_floats: !ctx.excluded("C16/rewrite-differs/full-float") };
    run_proptest(ctx, "history-pairs", PtCfg::new(ctx.lanes, ctx.tier.pick(1200, 60_000)), || strategy(g), check);
    let big: Vec<Case> = (0..ctx.tier.pick(4, 16))
        .map(|i| Case { l: logical::large(18_000 + 1500 * i, 5000 + i as u64, 1 + (i % 4) as u8), seed2: 99 + i as u32, detours: vec![Detour::Junk(3, 4), Detour::Alias(9, 9), Detour::ReAdd(500)], reopen_at: if i % 2 == 0 { Some(30000) } else { None }, reopen_async: false, asyncw: i % 3 == 2, detour_internal: (i % 5) as u8 })
        .collect();
    run_list(ctx, "history-pairs-large", &big, check);
    run_proptest(
        ctx,
        "foreign-backing-archive-vs-in-memory",
        PtCfg::new(ctx.lanes, ctx.tier.pick(150, 4000)),
        || (crate::model::layout::layout(crate::model::layout::LGen { max_entries: ctx.tier.pick(120, 600), big_runs: false }), any::<bool>()).prop_map(|(l, asyncw)| FCase { l, asyncw }),
        check_foreign,
    );
    // cross-process
    let n = ctx.tier.pick(24, 200);
    let xs: Vec<XCase> = (0..n)
        .map(|i| {
            let mut l = logical::large(30 + 17 * i, ctx.seed.wrapping_mul(31) + i as u64, 1 + (i % 4) as u8);
            // duplicates and a shuffled insertion order
            for (k, t) in l.tiles.iter_mut().enumerate() {
                t.1 = ((k % 5) * 9000) as u16;
            }
            XCase { l, asyncw: i % 2 == 1 }
        })
        .collect();
    let idx = std::sync::atomic::AtomicUsize::new(0);
    run_list(ctx, "cross-process", &xs, |c| check_cross(ctx, c, idx.fetch_add(1, std::sync::atomic::Ordering::Relaxed)));
    for c in ["reopen-in-between", "detours", "dup-content", "writer-async", "cross-process", "leaf-spill", "tiles-in-foreign-backing-archive", "same-offset-different-length"] {
        ctx.rec.floor(c, 4);
    }
}

pub fn replay(sub: &str, case: &Value) -> Option<CaseResult> {
    match sub {
        "history-pairs" | "history-pairs-large" => Some(check(&super::de(case)?)),
        "foreign-backing-archive-vs-in-memory" => Some(check_foreign(&super::de(case)?)),
        "cross-process" => {
            let c: XCase = super::de(case)?;
            let a = super::c01::write_logical(&c.l, c.asyncw).ok()?;
            let b = super::c01::write_logical(&c.l, c.asyncw).ok()?;
            Some(if a == b { Ok(Meta::new(true)) } else { Err(Fail::new("C16/same-history-differs", "in-process repeat differs")) })
        }
        _ => None,
    }
}
