pub fn emit_main(_file: &str) -> ! {
    std::process::exit(2)
}
