//! C17 — a torn write is never mistaken for a complete archive (crash-point enumeration).

use crate::engine::{catch, guarded, run_indexed, sample, CaseResult, Ctx, Fail, Meta};
use crate::model::logical::{self, Gen, Logical};
use crate::sio::{replay_image, OpRec, Sched, Stream};
use futures::executor::block_on;
use serde::{Deserialize, Serialize};
use serde_json::{json, Value};

#[derive(Clone, Debug, Serialize, Deserialize)]
pub struct Inst {
    pub l: Logical,
    pub asyncw: bool,
    /// the archive is first written to memory and opened again, untouched: the write under test is a re-save
    /// whose tiles live in the backing reader
    #[serde(default)]
    pub backed: bool,
}

pub struct Prep {
    pub log: Vec<OpRec>,
    pub complete: Vec<u8>,
    pub first_data_write: usize,
    pub header_write: usize,
}

/// write the recipe into a fresh recording stream positioned at `start`
pub fn write_recorded(l: &Logical, asyncw: bool, sched: Sched, prefill: Vec<u8>, start: u64) -> Result<(std::io::Result<()>, Stream), Fail> {
    let a = l.build(asyncw).map_err(|e| Fail::new("harness", e))?;
    write_recorded_from(a, asyncw, sched, prefill, start)
}

pub fn write_recorded_from(a: crate::libx::Arch, asyncw: bool, sched: Sched, prefill: Vec<u8>, start: u64) -> Result<(std::io::Result<()>, Stream), Fail> {
    let mut s = Stream::new(prefill, start, sched, true);
    let r = guarded(if asyncw { "to_async_writer" } else { "to_writer" }, || match a {
        crate::libx::Arch::New(pm) => pm.to_writer(&mut s),
        crate::libx::Arch::Bytes(pm) => pm.to_writer(&mut s),
        crate::libx::Arch::NewA(pm) => block_on(pm.to_async_writer(&mut s)),
        crate::libx::Arch::BytesA(pm) => block_on(pm.to_async_writer(&mut s)),
    })?;
    Ok((r, s))
}

pub fn prepare(i: &Inst) -> Result<Prep, Fail> {
    let (r, s) = if i.backed {
        let a = i.l.build(i.asyncw).map_err(|e| Fail::new("C17/harness", e))?;
        let bytes = a.write().map_err(|e| Fail::new("C17/harness", format!("first write failed: {e}")))?;
        let a2 = if i.asyncw { crate::libx::Arch::open_async(bytes) } else { crate::libx::Arch::open_sync(bytes) }.map_err(|e| Fail::new("C17/harness", format!("reopen failed: {e}")))?;
        write_recorded_from(a2, i.asyncw, Sched::none(), Vec::new(), 0)
    } else {
        write_recorded(&i.l, i.asyncw, Sched::none(), Vec::new(), 0)
    }
    .map_err(|f| Fail::new(format!("C17/{}", f.sig), f.msg))?;
    r.map_err(|e| Fail::new("C17/harness", format!("fault-free write failed: {e}")))?;
    let log = s.log();
    let complete = s.data();
    let first_data_write = log.iter().position(|o| matches!(o, OpRec::Write { .. })).unwrap_or(0);
    let header_write = log.iter().rposition(|o| matches!(o, OpRec::Write { pos: 0, .. })).unwrap_or(log.len());
    Ok(Prep { log, complete, first_data_write, header_write })
}

fn check_crash(i: &Inst, p: &Prep, k: usize) -> CaseResult {
    let img = replay_image(&p.log, k);
    let same = img == p.complete;
    let opened = catch(|| pmtiles2::PMTiles::from_bytes(img.clone()).map(|pm| pm.num_tiles()));
    let kind = if i.asyncw { "async" } else { "sync" };
    match opened {
        Err(pi) => fail!(format!("C17/torn-image-panics/{kind}"), "image after {k} of {} operations: reader panics: {} at {}", p.log.len(), pi.msg, pi.loc),
        Ok(Ok(n)) => {
            if !same {
                let header_present = img.len() >= 7 && &img[..7] == b"PMTiles";
                fail!(
                    format!("C17/torn-image-opens/{kind}"),
                    "image after the first {k} of {} stream operations ({} bytes, complete archive {} bytes, magic present: {header_present}) opens successfully with {n} tiles but is not the complete archive; op k-1 = {:?}",
                    p.log.len(),
                    img.len(),
                    p.complete.len(),
                    k.checked_sub(1).and_then(|j| p.log.get(j)).map(|o| match o {
                        OpRec::Write { pos, bytes } => format!("Write{{pos:{pos},len:{}}}", bytes.len()),
                        other => format!("{other:?}"),
                    })
                );
            }
            Ok(Meta::new(false).label(true, "image-identical-to-complete"))
        }
        Ok(Err(_)) => {
            ensure!(!same, format!("C17/complete-image-rejected/{kind}"), "the complete archive is rejected by the reader");
            let mid = k > p.first_data_write && k <= p.header_write;
            Ok(Meta::new(mid).label(mid, "between-first-data-write-and-header").label(i.asyncw, "async").label(!i.asyncw, "sync").label(true, super::c01::codec_label(i.l.settings.internal)).label(super::c01::spilled(&p.complete), "leaf-spill").label(i.backed, "re-save-of-opened-archive").label(i.l.pool.last().map_or(false, |c| c.kind == 9), "last-tile-ends-in-zeros"))
        }
    }
}

pub fn instances(ctx: &Ctx) -> Vec<Inst> {
    let n = ctx.tier.pick(400, 12_000);
    let ls = sample(ctx.seed ^ 0xC17, n, &logical::logical(Gen { max_tiles: 200, allow_big: false, allow_adv: false, full_floats: false }));
    let mut out: Vec<Inst> = ls.into_iter().enumerate().map(|(k, mut l)| {
        l.settings.internal = 1 + (k % 4) as u8;
        if k % 5 == 3 && !l.tiles.is_empty() {
            // the tile with the highest id ends in thousands of zero bytes (uncompressed raster / elevation data)
            l.pool.push(crate::model::ContentSpec { kind: 9, len: 4200 + (k as u32 * 131) % 9000, seed: k as u32 });
            if let Some(t) = l.tiles.last_mut() {
                t.1 = u16::MAX;
            }
        }
        Inst { l, asyncw: k % 2 == 1, backed: k % 3 == 2 }
    }).collect();
    for k in 0..ctx.tier.pick(8, 24) {
        // with leaf spill; uncompressed ones produce tens of thousands of operations (thorough tier)
        let internal = if ctx.tier == crate::engine::Tier::Quick { 2 + (k % 3) as u8 } else { 1 + (k % 4) as u8 };
        out.push(Inst { l: logical::large(14_000 + 1000 * k, 170 + k as u64, internal), asyncw: k % 2 == 0, backed: k % 4 == 1 });
    }
    out
}

pub fn run(ctx: &Ctx) {
    ctx.rec.set_rule(
        "crash-point enumeration: sampled logical archives (with and without leaf spill, 4 internal compressions, sync and async writer; built in memory, or written once, opened again and re-saved \
         untouched; every fifth with a highest-id tile that ends in 4-8 KiB of zero bytes) are written into a fresh recording \
         stream; the N seek/write/flush/close operations are logged and for EVERY k in [0, N] the first k operations are replayed into an empty zero-filling stream (each write \
         atomic); PMTiles::from_bytes(image_k) must be Err unless image_k is byte-identical to the complete archive. Non-trivial: k lies after the first data write and not after \
         the header write. (instance, k) pairs are distinct by construction and counted.",
    );
    let insts = instances(ctx);
    let mut preps: Vec<(Inst, Prep)> = Vec::new();
    let cap = ctx.tier.pick(8_000usize, 200_000);
    let mut skipped = 0;
    for i in insts {
        match prepare(&i) {
            Ok(p) => {
                if p.log.len() > cap {
                    skipped += 1;
                } else {
                    preps.push((i, p));
                }
            }
            Err(f) => ctx.rec.violation(&ctx.verif_dir, ctx.prop, "fault-free-baseline", &f, serde_json::to_value(&i).unwrap_or(Value::Null)),
        }
    }
    if skipped > 0 {
        ctx.rec.exclude("instances with more recorded operations than this tier's cap", skipped);
    }
    preps.sort_by_key(|(_, p)| p.log.len());
    let mut prefix = vec![0u64];
    for (_, p) in &preps {
        prefix.push(prefix.last().unwrap() + p.log.len() as u64 + 1);
    }
    let tot = *prefix.last().unwrap();
    ctx.rec.observe("instances", json!(preps.len()));
    ctx.rec.observe("operations_per_instance_min_max", json!([preps.first().map(|p| p.1.log.len()), preps.last().map(|p| p.1.log.len())]));
    let locate = |i: u64| -> (usize, usize) {
        let idx = prefix.partition_point(|p| *p <= i) - 1;
        (idx, (i - prefix[idx]) as usize)
    };
    run_indexed(ctx, "every-crash-point", tot, true, 32, |i| {
        let (idx, k) = locate(i);
        check_crash(&preps[idx].0, &preps[idx].1, k)
    }, |i| {
        let (idx, k) = locate(i);
        json!({"inst": preps[idx].0, "k": k, "n": preps[idx].1.log.len()})
    });
    for c in ["between-first-data-write-and-header", "async", "sync", "leaf-spill", "internal-none", "internal-gzip", "internal-brotli", "internal-zstd", "image-identical-to-complete", "re-save-of-opened-archive", "last-tile-ends-in-zeros"] {
        ctx.rec.floor(c, 4);
    }
}

pub fn replay(sub: &str, case: &Value) -> Option<CaseResult> {
    match sub {
        "every-crash-point" => {
            let inst: Inst = super::de(case.get("inst")?)?;
            let k = case.get("k")?.as_u64()? as usize;
            Some(prepare(&inst).and_then(|p| check_crash(&inst, &p, k)))
        }
        _ => None,
    }
}
