//! C18 — the archive writer honours the stream's starting position.

use super::c17::write_recorded;
use crate::engine::{guarded, run_list, run_proptest, CaseResult, Ctx, Fail, Meta, PtCfg};
use crate::libx::Arch;
use crate::model::logical::{self, Gen, Logical};
use crate::sio::Sched;
use crate::spec::reader::{self, Limits};
use proptest::prelude::*;
use serde::{Deserialize, Serialize};
use serde_json::Value;

#[derive(Clone, Debug, Serialize, Deserialize)]
pub struct Case {
    pub l: Logical,
    pub asyncw: bool,
    pub start: u64,
    /// 0: stream pre-filled with exactly `start` sentinel bytes; 1: pre-filled longer (start + extra); 2: empty but positioned at `start`
    pub prefill: u8,
    pub extra: u32,
}

fn sentinel(n: usize) -> Vec<u8> {
    (0..n).map(|i| 0xA0 | (i % 13) as u8).collect()
}

fn check(c: &Case) -> CaseResult {
    // start positions at the top of the u64 range are recipes relative to the archive's own size: the archive length
    // (found by a first write at position 0) minus 127, minus 0..3 - positions at which stream offsets and
    // archive-relative offsets happen to coincide
    let mut c = c.clone();
    if c.start >= u64::MAX - 3 {
        let k = u64::MAX - c.start;
        let (r0, s0) = write_recorded(&c.l, c.asyncw, Sched::none(), Vec::new(), 0).map_err(|f| Fail::new(format!("C18/{}", f.sig), f.msg))?;
        r0.map_err(|e| Fail::new("C18/write-err/at-0", format!("{e}")))?;
        c.start = (s0.data().len() as u64).saturating_sub(127 + k).saturating_add(1);
    }
    let c = &c;
    let p = c.start as usize;
    let pre = match c.prefill % 3 {
        0 => sentinel(p),
        1 => sentinel(p + c.extra as usize),
        _ => Vec::new(),
    };
    let kind = if c.asyncw { "async" } else { "sync" };
    let (r, s) = write_recorded(&c.l, c.asyncw, Sched::none(), pre.clone(), c.start).map_err(|f| Fail::new(format!("C18/{}", f.sig), f.msg))?;
    r.map_err(|e| Fail::new(format!("C18/write-err/{kind}"), format!("writing at start position {p} failed: {e}")))?;
    let data = s.data();
    let end_pos = s.pos();
    // bytes before P untouched
    let keep = pre.len().min(p);
    if data.len() < keep || data[..keep] != pre[..keep] {
        let at = data.iter().zip(&pre[..keep]).position(|(a, b)| a != b).unwrap_or(data.len().min(keep));
        fail!(format!("C18/prefix-overwritten/{kind}"), "start position {p}: byte {at} before the start position was overwritten");
    }
    if c.prefill % 3 == 2 {
        ensure!(data.len() >= p && data[..p].iter().all(|b| *b == 0), format!("C18/prefix-overwritten/{kind}"), "start position {p} in an empty stream: bytes before the start are not the zero fill");
    }
    // stream[P..] is a well-formed archive with offsets relative to P
    let tail = data.get(p..).ok_or_else(|| Fail::new(format!("C18/nothing-written-at-start/{kind}"), format!("stream is only {} bytes long, start position {p}", data.len())))?;
    let lim = Limits { max_tiles: 1 << 24, max_visits: 100_000, max_dir_bytes: 256 << 20, max_depth: 4 };
    let model = c.l.map();
    let ar = super::c02::validate(tail, &model, u64::from(c.l.order_seed), "C18")
        .map_err(|f| Fail::new(format!("C18/bytes-from-start-not-an-archive/{kind}"), format!("start position {p}: {} [{}]", f.msg, f.sig)))?;
    let _ = lim;
    let _ = reader::parse;
    // the library reads back the archive that was written
    let mut a = guarded("from_bytes", || Arch::open_sync(tail.to_vec()))?.map_err(|e| Fail::new(format!("C18/bytes-from-start-do-not-open/{kind}"), format!("start position {p}: {e}")))?;
    super::c01::compare_tiles(&mut a, &model, Some(&c.l), 7, "C18")?;
    super::c01::compare_fields(&a, &c.l, "C18")?;
    // final position = P + end of tile data
    let want_end = c.start + ar.header.data_off + ar.header.data_len;
    ensure!(end_pos == want_end, format!("C18/final-position/{kind}"), "start position {p}: stream left at {end_pos}, the archive ends at {want_end}");
    Ok(Meta::new(p > 0)
        .label(p == 0, "start-0")
        .label(p > 0 && p < 127, "start-inside-header-length")
        .label(p >= 127, "start>=127")
        .label(c.prefill % 3 == 1, "prefilled-longer")
        .label(c.prefill % 3 == 2, "empty-but-positioned")
        .label(ar.has_leaves, "leaf-spill")
        .label(c.asyncw, "async")
        .label(!c.asyncw, "sync"))
}

fn strategy() -> impl Strategy<Value = Case> {
    let start = prop_oneof![1 => Just(0u64), 1 => Just(1u64), 1 => Just(10u64), 1 => Just(127u64), 1 => Just(128u64), 1 => Just(4096u64), 1 => Just(16384u64), 3 => 0u64..1_000_000, 2 => 0u64..300, 2 => (0u64..4).prop_map(|k| u64::MAX - k)];
    (logical::logical(Gen { max_tiles: 150, allow_big: false, allow_adv: false, full_floats: false }), any::<bool>(), start, 0u8..3, 0u32..200_000).prop_map(|(l, asyncw, start, prefill, extra)| Case { l, asyncw, start, prefill, extra })
}

pub fn run(ctx: &Ctx) {
    ctx.rec.set_rule(
        "logical archive recipes (4 internal compressions; fixed-seed large ones with leaf spill) x start positions {0,1,10,127,128,4096,16384, uniform <= 10^6, small, archive length - 127 - {-1,0,1,2}} x stream \
         pre-filled with exactly P sentinel bytes / with P + extra / empty but positioned at P x sync and async writer. Oracle: bytes [0,P) unchanged; stream[P..] passes the \
         independent reader's full conformance check against the model (offsets relative to P) and opens in the library to the model; final stream position = P + end of tile \
         data. Non-trivial: P > 0; distinct by digest.",
    );
    run_proptest(ctx, "start-positions", PtCfg::new(ctx.lanes, ctx.tier.pick(500, 40_000)), strategy, check);
    let big: Vec<Case> = (0..ctx.tier.pick(6, 24))
        .map(|i| Case { l: logical::large(15_000 + 700 * i, 1800 + i as u64, 1 + (i % 4) as u8), asyncw: i % 2 == 1, start: [0u64, 1, 127, 5000, 70_001, 16_384][i % 6], prefill: (i % 3) as u8, extra: 50_000 })
        .collect();
    run_list(ctx, "start-positions-large", &big, check);
    for c in ["start-0", "start-inside-header-length", "start>=127", "prefilled-longer", "empty-but-positioned", "leaf-spill", "async", "sync"] {
        ctx.rec.floor(c, 4);
    }
}

pub fn replay(sub: &str, case: &Value) -> Option<CaseResult> {
    match sub {
        "start-positions" | "start-positions-large" => Some(check(&super::de(case)?)),
        _ => None,
    }
}
