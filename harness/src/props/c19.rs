//! C19 — documented rejection contracts hold and leave the archive unchanged.

use crate::engine::{guarded, run_proptest, CaseResult, Ctx, Fail, Meta, PtCfg};
use crate::libx::Arch;
use crate::model::entries::{self, EDelta};
use crate::model::history::{self, History, Op};
use crate::model::json::{self, J};
use crate::model::layout::{self, LGen};
use crate::spec::codec::{self, Params};
use crate::spec::writer::{self, Layout};
use crate::spec::{directory, SEntry};
use futures::executor::block_on;
use proptest::prelude::*;
use serde::{Deserialize, Serialize};
use serde_json::Value;

// ---- (1) empty tile refused, nothing changes ----------------------------------------------

fn check_empty_add(h: &History) -> CaseResult {
    let mut r = history::start(h, "C19")?;
    let mut refused_late = false;
    let mut refusals = 0;
    for (k, op) in h.ops.iter().enumerate() {
        if let Op::AddEmpty(i) = op {
            let id = r.ids[crate::model::pick(*i, r.ids.len())];
            let before_counts = r.arch.store_counts();
            let res = guarded("add_tile", || r.arch.add(id, Vec::new())).map_err(|f| Fail::new("C19/empty-tile-panics", f.msg))?;
            ensure!(res.is_err(), "C19/empty-tile-accepted", "step {k}: add_tile({id}, empty) returned Ok");
            // observationally identical to the model before the call
            history::check_all(&mut r, "C19/empty-tile-changed-archive").map_err(|mut f| {
                f.sig = "C19/empty-tile-changed-archive".into();
                f.msg = format!("after refused add_tile({id}, empty) at step {k}: {}", f.msg);
                f
            })?;
            ensure!(r.arch.store_counts() == before_counts, "C19/empty-tile-changed-archive", "after refused add_tile({id}, empty) at step {k}: builder counts changed {:?} -> {:?}", before_counts, r.arch.store_counts());
            refusals += 1;
            if k > 0 {
                refused_late = true;
            }
        } else {
            history::step(&mut r, op, "C19")?;
        }
    }
    // identical bytes when written: compare with the same history without the refused adds
    let mut clean = h.clone();
    clean.ops.retain(|o| !matches!(o, Op::AddEmpty(_)));
    let mut r2 = history::start(&clean, "C19")?;
    for op in &clean.ops {
        history::step(&mut r2, op, "C19")?;
    }
    let a = std::mem::replace(&mut r.arch, Arch::new_sync());
    let b = std::mem::replace(&mut r2.arch, Arch::new_sync());
    let wa = guarded("to_writer", || a.write())?.map_err(|e| Fail::new("C19/write-err", format!("{e}")))?;
    let wb = guarded("to_writer", || b.write())?.map_err(|e| Fail::new("C19/write-err", format!("{e}")))?;
    ensure!(wa == wb, "C19/empty-tile-changed-archive", "archive written after refused empty adds differs from the archive written without them");
    Ok(Meta::new(refused_late).label(refusals > 0, "empty-add-refused").label(r.stats.reopens > 0, "empty-add-reader-backed"))
}

fn empty_history() -> impl Strategy<Value = History> {
    history::history(30, 40, 60).prop_map(|mut h| {
        // make sure there is at least one AddEmpty, at a generated position
        let n = h.ops.len();
        let pos = (h.ids.len() * 7 + n * 3) % (n + 1);
        h.ops.insert(pos, Op::AddEmpty((pos * 9973 % 65536) as u16));
        h
    })
}

// ---- (2) directory with a zero-length entry ------------------------------------------------

#[derive(Clone, Debug, Serialize, Deserialize)]
pub struct ZeroLen {
    pub ds: Vec<EDelta>,
    pub at: u16,
    pub codec: u8,
    pub params: Params,
}

fn check_zero_len(c: &ZeroLen) -> CaseResult {
    let mut es: Vec<SEntry> = entries::build(&c.ds);
    if es.is_empty() {
        es.push(SEntry { id: 0, off: 0, len: 1, run: 1 });
    }
    let at = crate::model::pick(c.at, es.len());
    es[at].len = 0;
    let d = super::c05::to_lib(&es);
    for asyncw in [false, true] {
        let k = if asyncw { "async" } else { "sync" };
        let r = guarded("Directory::to_writer", || super::c05::lib_write(&d, c.codec, asyncw)).map_err(|f| Fail::new(format!("C19/zero-length-serialiser-panics/{k}"), f.msg))?;
        ensure!(r.is_err(), format!("C19/zero-length-serialised/{k}"), "serialiser accepted a directory whose entry {at} of {} has length 0 ({})", es.len(), codec::name(c.codec));
    }
    // parser side: bytes from the independent encoder (it does not care about the rule)
    let raw = directory::encode(&es, true);
    let enc = codec::compress(c.codec, &raw, c.params);
    for asyncr in [false, true] {
        let k = if asyncr { "async" } else { "sync" };
        let r = guarded("Directory::from_reader", || super::c05::lib_read(&enc, c.codec, asyncr)).map_err(|f| Fail::new(format!("C19/zero-length-parser-panics/{k}"), f.msg))?;
        ensure!(r.is_err(), format!("C19/zero-length-parsed/{k}"), "parser accepted a directory whose entry {at} of {} has length 0 ({})", es.len(), codec::name(c.codec));
    }
    // a length varint that is a non-zero multiple of 2^32 is out of range for the 32-bit field; whatever the parser
    // does with it, it must not hand out an entry of length 0
    for k in [1u64, 2, 3] {
        let mut vals = directory::values(&es, true);
        let n = es.len();
        vals[1 + 2 * n + at] = k << 32;
        let enc = codec::compress(c.codec, &directory::from_values(&vals), c.params);
        for asyncr in [false, true] {
            let kk = if asyncr { "async" } else { "sync" };
            let r = guarded("Directory::from_reader", || super::c05::lib_read(&enc, c.codec, asyncr)).map_err(|f| Fail::new(format!("C19/zero-length-parser-panics/{kk}"), f.msg))?;
            if let Ok(d) = r {
                let zero = (&d).into_iter().any(|e| e.length == 0);
                ensure!(!zero, format!("C19/zero-length-parsed/{kk}"), "length varint {} (= {k} * 2^32) at entry {at} was parsed into an entry of length 0", k << 32);
            }
        }
    }
    // the zero spelled with more bytes than necessary (0x80 0x00, 0x80 0x80 0x00: what a fixed-width varint writer
    // emits) is still a length of 0
    for pad in [1usize, 2, 4] {
        let vals = directory::values(&es, true);
        let n = es.len();
        let mut raw = Vec::new();
        for (i, v) in vals.iter().enumerate() {
            if i == 1 + 2 * n + at {
                raw.extend(std::iter::repeat(0x80u8).take(pad));
                raw.push(0);
            } else {
                crate::spec::varint::put(&mut raw, *v);
            }
        }
        let enc = codec::compress(c.codec, &raw, c.params);
        for asyncr in [false, true] {
            let kk = if asyncr { "async" } else { "sync" };
            let r = guarded("Directory::from_reader", || super::c05::lib_read(&enc, c.codec, asyncr)).map_err(|f| Fail::new(format!("C19/zero-length-parser-panics/{kk}"), f.msg))?;
            if let Ok(d) = r {
                let zero = (&d).into_iter().any(|e| e.length == 0);
                ensure!(!zero, format!("C19/zero-length-parsed/{kk}/over-long-varint"), "a length of 0 spelled with {} bytes at entry {at} was parsed into an entry of length 0", pad + 1);
            }
        }
    }
    Ok(Meta::new(at > 0).label(at > 0, "zero-length-not-first").label(es.len() > 100, "zero-length-big-directory").label(true, super::c01::codec_label(c.codec)))
}

// ---- (3) metadata that is JSON but not an object; (4) unknown internal compression ----------

#[derive(Clone, Debug, Serialize, Deserialize)]
pub struct BadMeta {
    pub l: Layout,
    pub meta: J,
    pub how: u8,
}

/// the filter range of a partial open: everything, or a range that selects nothing / next to nothing (the
/// refusal must not depend on how much of the archive the caller asked for)
fn partial_range(how: u8) -> (std::ops::Bound<u64>, std::ops::Bound<u64>) {
    use std::ops::Bound::{Excluded, Included, Unbounded};
    match (how / 4) % 8 {
        0 | 1 => (Included(0), Excluded(u64::MAX)),
        2 => (Unbounded, Included(u64::MAX)),
        3 => (Included(5), Excluded(5)),
        4 => (Included(9), Included(2)),
        5 => (Excluded(u64::MAX), Unbounded),
        6 => (Included(0), Excluded(0)),
        _ => (Included(0), Included(0)),
    }
}

fn open_any(bytes: &[u8], how: u8) -> Result<std::io::Result<Arch>, Fail> {
    match how % 4 {
        0 => guarded("from_bytes", || Arch::open_sync(bytes.to_vec())),
        1 => guarded("from_bytes_partially", || pmtiles2::PMTiles::from_bytes_partially(bytes.to_vec(), partial_range(how)).map(Arch::Bytes)),
        2 => guarded("from_async_reader", || Arch::open_async(bytes.to_vec())),
        _ => guarded("from_async_reader_partially", || block_on(pmtiles2::PMTiles::from_async_reader_partially(futures::io::Cursor::new(bytes.to_vec()), partial_range(how))).map(Arch::BytesA)),
    }
}

fn check_bad_meta(c: &BadMeta) -> CaseResult {
    let mut l = c.l.clone();
    l.meta = Some(c.meta.clone());
    let b = writer::build(&l);
    let kind = match &c.meta {
        J::Null => "null",
        J::Bool(_) => "bool",
        J::I(_) | J::U(_) | J::Fs(..) | J::Ff(_) => "number",
        J::S(_) | J::Big(..) => "string",
        J::A(_) => "array",
        J::O(_) => "object",
    };
    let r = open_any(&b.bytes, c.how).map_err(|f| Fail::new(format!("C19/non-object-metadata-panics/{kind}"), f.msg))?;
    ensure!(r.is_err(), format!("C19/non-object-metadata-accepted/{kind}"), "archive whose metadata is the JSON {kind} {} was opened successfully", c.meta.to_value());
    // control: the same layout with object metadata opens
    let mut ok = c.l.clone();
    ok.meta = Some(J::O(vec![("k".into(), c.meta.clone())]));
    let b2 = writer::build(&ok);
    let r2 = open_any(&b2.bytes, c.how)?;
    ensure!(r2.is_ok(), "C19/object-metadata-rejected", "control archive with object metadata was rejected: {:?}", r2.err());
    Ok(Meta::new(true).label(true, "non-object-metadata").label(c.how % 4 >= 2, "open-async").label(c.how % 2 == 1, "open-partial").label(c.how % 2 == 1 && (c.how / 4) % 8 >= 3, "partial-open-with-empty-or-tiny-range"))
}

#[derive(Clone, Debug, Serialize, Deserialize)]
pub struct UnknownComp {
    pub l: Layout,
    pub how: u8,
    pub with_meta: bool,
    pub lg: crate::model::Logical,
}

fn check_unknown(c: &UnknownComp) -> CaseResult {
    // opening: a valid archive whose header says internal compression 0
    let mut l = c.l.clone();
    if !c.with_meta {
        l.meta = None;
    } else if l.meta.is_none() {
        l.meta = Some(J::O(vec![]));
    }
    l.internal = 1;
    let mut b = writer::build(&l);
    b.bytes[97] = 0;
    let r = open_any(&b.bytes, c.how).map_err(|f| Fail::new("C19/unknown-compression-open-panics", f.msg))?;
    ensure!(r.is_err(), "C19/unknown-compression-opened", "archive with internal compression 'unknown' opened successfully (metadata {}, {} entries)", if c.with_meta { "present" } else { "empty" }, b.tile_entries.len());
    // the same with *empty* sections: no metadata, and a root directory section of length 0 (or of one byte)
    if !c.with_meta {
        for root_len in [0u64, 1] {
            let mut hb = b.bytes.clone();
            let mut h = crate::spec::SHeader::decode(&hb).map_err(|e| Fail::new("C19/INFRA/harness-self-check", e))?;
            h.internal = 0;
            h.root_len = root_len;
            h.meta_len = 0;
            h.leaf_len = 0;
            hb[..127].copy_from_slice(&h.encode());
            let r = open_any(&hb, c.how).map_err(|f| Fail::new("C19/unknown-compression-open-panics", f.msg))?;
            ensure!(r.is_err(), "C19/unknown-compression-opened/empty-sections", "archive with internal compression 'unknown', no metadata and a root directory section of {root_len} byte(s) opened successfully");
        }
    }
    // writing: every writer refuses Compression::Unknown (every sixth time with an archive of several hundred entries)
    let mut lg = if c.how % 6 == 5 { crate::model::logical::large(260 + usize::from(c.how) * 3, u64::from(c.how), 1) } else { c.lg.clone() };
    lg.settings.internal = 0;
    for asyncw in [false, true] {
        let k = if asyncw { "async" } else { "sync" };
        let a = lg.build(asyncw).map_err(|e| Fail::new("C19/harness", e))?;
        let r = guarded("to_writer", || a.write()).map_err(|f| Fail::new(format!("C19/unknown-compression-write-panics/{k}"), f.msg))?;
        ensure!(r.is_err(), format!("C19/unknown-compression-written/archive/{k}"), "PMTiles::to_writer accepted internal compression 'unknown' ({} tiles)", lg.tiles.len());
        let d = super::c05::to_lib(&b.tile_entries);
        let r = guarded("Directory::to_writer", || super::c05::lib_write(&d, 0, asyncw)).map_err(|f| Fail::new(format!("C19/unknown-compression-write-panics/{k}"), f.msg))?;
        ensure!(r.is_err(), format!("C19/unknown-compression-written/directory/{k}"), "Directory::to_writer accepted compression 'unknown'");
        let r = if asyncw {
            guarded("write_directories_async", || {
                let mut out = futures::io::Cursor::new(Vec::new());
                block_on(pmtiles2::util::write_directories_async(&mut out, &Vec::<pmtiles2::Entry>::from(d.clone()), pmtiles2::Compression::Unknown, None))
            })
        } else {
            guarded("write_directories", || {
                let mut out = std::io::Cursor::new(Vec::new());
                pmtiles2::util::write_directories(&mut out, &Vec::<pmtiles2::Entry>::from(d.clone()), pmtiles2::Compression::Unknown, None)
            })
        }
        .map_err(|f| Fail::new(format!("C19/unknown-compression-write-panics/{k}"), f.msg))?;
        ensure!(r.is_err(), format!("C19/unknown-compression-written/write_directories/{k}"), "util::write_directories accepted compression 'unknown'");
    }
    // the directory parser refuses it too
    let r = guarded("Directory::from_bytes", || pmtiles2::Directory::from_bytes(&b.dirs[0].blob, pmtiles2::Compression::Unknown)).map_err(|f| Fail::new("C19/unknown-compression-open-panics", f.msg))?;
    ensure!(r.is_err(), "C19/unknown-compression-directory-parsed", "Directory::from_bytes accepted compression 'unknown'");
    Ok(Meta::new(true).label(c.with_meta, "unknown-with-metadata").label(!c.with_meta, "unknown-empty-metadata").label(c.how % 2 == 1 && (c.how / 4) % 8 >= 3, "partial-open-with-empty-or-tiny-range"))
}

pub fn run(ctx: &Ctx) {
    ctx.rec.set_rule(
        "(1) edit histories (empty / library-written / foreign initial archives, sync and async handles) with add_tile(id, empty) inserted at a generated position: must be \
         Err, and the archive must then equal the model in every lookup, listing, count, builder counts and in the bytes it writes; (2) valid directories of 1..10^3 entries with \
         one length-0 entry at a generated index x 4 codecs x sync/async serialiser and parser (parser fed by the independent encoder); (3) foreign archives whose metadata is \
         each non-object JSON kind x 4 codecs x full/partial x sync/async open, with an object-metadata control; (4) internal compression 'unknown' in a header on open (with \
         and without metadata) and on every writer. Non-trivial: the offending element is not the first entry / first operation; distinct by digest.",
    );
    let n = ctx.tier.pick(800, 6000);
    run_proptest(ctx, "empty-tile-in-history", PtCfg::new(ctx.lanes, n), empty_history, check_empty_add);
    run_proptest(
        ctx,
        "zero-length-entry",
        PtCfg::new(ctx.lanes, n),
        || (entries::list(ctx.tier.pick(300, 1000)), any::<u16>(), 1u8..=4, any::<(u8, u8)>()).prop_map(|(ds, at, codec, (level, flag))| ZeroLen { ds, at, codec, params: Params { level, flag } }),
        check_zero_len,
    );
    run_proptest(
        ctx,
        "non-object-metadata",
        PtCfg::new(ctx.lanes, n),
        || (layout::layout(LGen { max_entries: 60, big_runs: false }), json::non_object(), any::<u8>()).prop_map(|(l, meta, how)| BadMeta { l, meta, how }),
        check_bad_meta,
    );
    run_proptest(
        ctx,
        "unknown-internal-compression",
        PtCfg::new(ctx.lanes, ctx.tier.pick(100, 1500)),
        || {
            (layout::layout(LGen { max_entries: 60, big_runs: false }), any::<u8>(), any::<bool>(), crate::model::logical::logical(crate::model::logical::Gen { max_tiles: 40, allow_big: false, allow_adv: false, full_floats: false }))
                .prop_map(|(l, how, with_meta, lg)| UnknownComp { l, how, with_meta, lg })
        },
        check_unknown,
    );
    for c in ["empty-add-refused", "empty-add-reader-backed", "zero-length-not-first", "zero-length-big-directory", "non-object-metadata", "unknown-with-metadata", "unknown-empty-metadata", "open-async", "open-partial", "partial-open-with-empty-or-tiny-range"] {
        ctx.rec.floor(c, 10);
    }
}

pub fn replay(sub: &str, case: &Value) -> Option<CaseResult> {
    match sub {
        "empty-tile-in-history" => Some(check_empty_add(&super::de(case)?)),
        "zero-length-entry" => Some(check_zero_len(&super::de(case)?)),
        "non-object-metadata" => Some(check_bad_meta(&super::de(case)?)),
        "unknown-internal-compression" => Some(check_unknown(&super::de(case)?)),
        _ => None,
    }
}
