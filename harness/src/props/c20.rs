//! C20 — opening is lazy and every read stays inside the section it serves.

use crate::engine::{guarded, run_proptest, CaseResult, Ctx, Fail, Meta, PtCfg};
use crate::model::layout::{self, LGen};
use crate::model::ranges::{self, RangeSpec};
use crate::sio::{Sched, Stream};
use crate::spec::writer::{self, Layout};
use futures::executor::block_on;
use pmtiles2::PMTiles;
use proptest::prelude::*;
use serde::{Deserialize, Serialize};
use serde_json::Value;

#[derive(Clone, Debug, Serialize, Deserialize)]
pub struct Case {
    pub l: Layout,
    pub asyncr: bool,
    pub range: Option<RangeSpec>,
    pub lookups: Vec<u16>,
    /// transfer cap applied to the reader (0 = none): laziness must not depend on it
    pub cap: u32,
}

fn inside(r: (u64, u64), allowed: &[(u64, u64)]) -> bool {
    // r ⊆ union(allowed), allowed sorted & merged
    let mut at = r.0;
    for (a, b) in allowed {
        if *a <= at && at < *b {
            at = *b;
            if at >= r.1 {
                return true;
            }
        }
    }
    at >= r.1
}

fn merge(mut v: Vec<(u64, u64)>) -> Vec<(u64, u64)> {
    v.retain(|(a, b)| b > a);
    v.sort_unstable();
    let mut out: Vec<(u64, u64)> = Vec::new();
    for (a, b) in v {
        if let Some(l) = out.last_mut() {
            if a <= l.1 {
                l.1 = l.1.max(b);
                continue;
            }
        }
        out.push((a, b));
    }
    out
}

fn check(c: &Case) -> CaseResult {
    let b = writer::build(&c.l);
    let h = &b.header;
    let kind = if c.asyncr { "async" } else { "sync" };
    let bounds = c.range.as_ref().map(|r| r.bounds(&b.steer));
    // every third case first opens, on this thread, a sibling archive whose header is identical (same section offsets,
    // lengths and counters) but whose tile ids are all shifted by one: the open under test still has to read *its own*
    // directories, which shows in the ids it lists
    let mut after_sibling = false;
    if c.l.first_id % 3 == 1 && !c.l.to_end {
        let mut l2 = c.l.clone();
        l2.first_id += 1;
        let b2 = writer::build(&l2);
        if b2.header.root_len == h.root_len && b2.header.leaf_len == h.leaf_len && b2.bytes.len() == b.bytes.len() {
            let _ = guarded("from_reader", || PMTiles::from_reader(std::io::Cursor::new(b2.bytes.clone())).map(|pm| pm.num_tiles()))?;
            let _ = guarded("from_async_reader", || block_on(PMTiles::from_async_reader(futures::io::Cursor::new(b2.bytes.clone()))).map(|pm| pm.num_tiles()))?;
            after_sibling = true;
        }
    }
    let s = Stream::new(b.bytes.clone(), 0, if c.cap > 0 { Sched::fixed_cap(c.cap) } else { Sched::none() }, false);
    let allowed = merge(vec![(0, 127), (h.meta_off, h.meta_off + h.meta_len), (h.root_off, h.root_off + h.root_len), (h.leaf_off, h.leaf_off + h.leaf_len)]);
    let data = (h.data_off, h.data_off + h.data_len);
    let mut retried = false;
    let mut swept = false;
    macro_rules! body {
        ($pm:expr, $get:expr) => {{
            let mut pm = $pm.map_err(|e| Fail::new(format!("C20/open-err/{kind}"), format!("a spec-valid archive is rejected: {e}")))?;
            let got = s.delivered();
            for r in &got {
                if r.0 < data.1 && data.0 < r.1 && data.1 > data.0 {
                    fail!(format!("C20/open-reads-tile-data/{kind}"), "opening read bytes [{},{}) which overlap the tile-data section [{},{})", r.0, r.1, data.0, data.1);
                }
                if !inside(*r, &allowed) {
                    fail!(format!("C20/open-reads-outside-sections/{kind}"), "opening read bytes [{},{}) outside header/metadata/root/leaf sections {:?}", r.0, r.1, allowed);
                }
            }
            ensure!(got.first().map_or(false, |r| r.0 == 0 && r.1 >= 127), format!("C20/header-not-read/{kind}"), "the 127 header bytes were not read");
            let ids: Vec<u64> = pm.tile_ids().into_iter().copied().collect();
            let mut ids = ids;
            ids.sort_unstable();
            if bounds.is_none() {
                ensure!(ids == b.expected.keys().copied().collect::<Vec<u64>>(), format!("C20/ids-differ/{kind}"), "the opened archive lists {} ids, its directories address {} (sibling archive opened before: {after_sibling})", ids.len(), b.expected.len());
            } else if let Some(x) = ids.iter().find(|i| !b.expected.contains_key(i)) {
                fail!(format!("C20/ids-differ/{kind}"), "the partially opened archive lists id {x}, which its directories do not address (sibling archive opened before: {after_sibling})");
            }
            let mut looked = 0;
            let mut after_sweep: Option<usize> = None;
            for sel in &c.lookups {
                if ids.is_empty() {
                    break;
                }
                let id = ids[crate::model::pick(*sel, ids.len())];
                let (off, len) = b.expected[&id];
                s.clear_delivered();
                let t: std::io::Result<Option<Vec<u8>>> = $get(&mut pm, id);
                let t = t.map_err(|e| Fail::new(format!("C20/get-err/{kind}"), format!("{e}")))?;
                ensure!(t.as_deref() == Some(&b.bytes[off as usize..(off + u64::from(len)) as usize]), format!("C20/tile-bytes-differ/{kind}"), "tile {id} bytes differ");
                let got = s.delivered();
                if got != vec![(off, off + u64::from(len))] {
                    fail!(format!("C20/lookup-reads-other-bytes/{kind}"), "lookup of tile {id} ([{off},{})) read {:?}", off + u64::from(len), got);
                }
                looked += 1;
            }
            // an ascending sweep over consecutive ids, the way a tile server copies a region: each lookup still reads
            // its own range and nothing of its neighbours
            if c.lookups.len() % 2 == 0 {
                let from = c.lookups.first().map_or(0, |s| crate::model::pick(*s, ids.len().max(1)));
                after_sweep = Some((from + 10).min(ids.len()));
                for id in ids.iter().skip(from).take(10) {
                    let (off, len) = b.expected[id];
                    s.clear_delivered();
                    let t: std::io::Result<Option<Vec<u8>>> = $get(&mut pm, *id);
                    let t = t.map_err(|e| Fail::new(format!("C20/get-err/{kind}"), format!("{e}")))?;
                    ensure!(t.as_deref() == Some(&b.bytes[off as usize..(off + u64::from(len)) as usize]), format!("C20/tile-bytes-differ/{kind}"), "tile {id} bytes differ (ascending sweep)");
                    let got = s.delivered();
                    if got != vec![(off, off + u64::from(len))] {
                        fail!(format!("C20/lookup-reads-other-bytes/{kind}"), "ascending sweep: lookup of tile {id} ([{off},{})) read {:?}", off + u64::from(len), got);
                    }
                    looked += 1;
                    swept = true;
                }
            }
            // a lookup that is interrupted by a transient fault part-way and then retried must still read exactly
            // its own range (nothing may be remembered from the aborted attempt)
            if let Some(sel) = c.lookups.first() {
                if !ids.is_empty() {
                    // the victim: the id right behind the last one of the sweep (a reader that remembers where the
                    // previous lookup ended is then positioned exactly on it), otherwise any id
                    let vi = match after_sweep {
                        Some(i) if i < ids.len() => i,
                        _ => crate::model::pick(sel.wrapping_mul(31), ids.len()),
                    };
                    let id = ids[vi];
                    let (off, len) = b.expected[&id];
                    let saved = s.with(|k| {
                        let old = k.sched.clone();
                        k.sched.caps = vec![5];
                        k.sched.cycle = true;
                        k.sched.fail_once_at = Some(k.ops + 2 + u64::from(*sel % 3));
                        old
                    });
                    s.clear_delivered();
                    let first: std::io::Result<Option<Vec<u8>>> = $get(&mut pm, id);
                    s.with(|k| k.sched = saved);
                    // a lookup that survives the transient fault (by retrying internally) must still deliver the tile's
                    // bytes and must not have read anything outside the tile's range
                    if let Ok(t) = &first {
                        ensure!(t.as_deref() == Some(&b.bytes[off as usize..(off + u64::from(len)) as usize]), format!("C20/lookup-across-transient-fault-wrong-bytes/{kind}"), "tile {id}: the lookup hit a transient fault part-way, reported success and returned other bytes");
                        for r in s.delivered() {
                            if r.0 < off || r.1 > off + u64::from(len) {
                                fail!(format!("C20/lookup-reads-other-bytes/{kind}"), "lookup of tile {id} ([{off},{})) across a transient fault read [{},{})", off + u64::from(len), r.0, r.1);
                            }
                        }
                    }
                    if first.is_err() {
                        // first the tile behind the victim (it starts where the aborted read would have ended) ...
                        if let Some(nid) = ids.get(vi + 1) {
                            let (noff, nlen) = b.expected[nid];
                            s.clear_delivered();
                            let t: std::io::Result<Option<Vec<u8>>> = $get(&mut pm, *nid);
                            let t = t.map_err(|e| Fail::new(format!("C20/get-err/{kind}"), format!("lookup after an aborted lookup: {e}")))?;
                            ensure!(t.as_deref() == Some(&b.bytes[noff as usize..(noff + u64::from(nlen)) as usize]), format!("C20/lookup-after-aborted-lookup-wrong-bytes/{kind}"), "tile {nid}, looked up after the lookup of tile {id} was aborted by a transient fault, returns other bytes");
                            let got = s.delivered();
                            if got != vec![(noff, noff + u64::from(nlen))] {
                                fail!(format!("C20/lookup-reads-other-bytes/{kind}"), "lookup of tile {nid} ([{noff},{})) after an aborted lookup read {:?}", noff + u64::from(nlen), got);
                            }
                        }
                        // ... then the victim again
                        s.clear_delivered();
                        let t: std::io::Result<Option<Vec<u8>>> = $get(&mut pm, id);
                        let t = t.map_err(|e| Fail::new(format!("C20/get-err/{kind}"), format!("retry after a transient fault: {e}")))?;
                        ensure!(t.as_deref() == Some(&b.bytes[off as usize..(off + u64::from(len)) as usize]), format!("C20/retried-lookup-wrong-bytes/{kind}"), "tile {id}: retried lookup after a transient fault returns other bytes");
                        let got = s.delivered();
                        if got != vec![(off, off + u64::from(len))] {
                            fail!(format!("C20/lookup-reads-other-bytes/{kind}"), "retried lookup of tile {id} ([{off},{})) after a transient fault read {:?}", off + u64::from(len), got);
                        }
                        retried = true;
                    }
                }
            }
            looked
        }};
    }
    let looked: usize = if c.asyncr {
        let s2 = s.clone();
        let pm = guarded("from_async_reader", || match bounds {
            None => block_on(PMTiles::from_async_reader(s2)),
            Some(r) => block_on(PMTiles::from_async_reader_partially(s2, r)),
        })?;
        body!(pm, |pm: &mut PMTiles<Stream>, id| block_on(pm.get_tile_by_id_async(id)))
    } else {
        let s2 = s.clone();
        let pm = guarded("from_reader", || match bounds {
            None => PMTiles::from_reader(s2),
            Some(r) => PMTiles::from_reader_partially(s2, r),
        })?;
        body!(pm, |pm: &mut PMTiles<Stream>, id| pm.get_tile_by_id(id))
    };
    let f = &b.facts;
    let _ = ranges::contains;
    Ok(Meta::new(f.data_not_last || f.gap_after_dir)
        .label(f.data_not_last, "tile-data-not-last")
        .label(f.gap_after_dir, "gap-after-directory-section")
        .label(f.depth >= 2, "with-leaves")
        .label(c.asyncr, "async")
        .label(!c.asyncr, "sync")
        .label(c.range.is_some(), "partial-open")
        .label(looked > 0, "lookups")
        .label(retried, "retry-after-transient-fault")
        .label(swept, "ascending-sweep-of-consecutive-ids")
        .label(after_sibling, "after-a-sibling-archive-with-an-identical-header")
        .label(c.cap > 0, "short-reads")
        .label(true, super::c01::codec_label(c.l.internal)))
}

fn strategy(max_entries: usize) -> impl Strategy<Value = Case> {
    (layout::layout(LGen { max_entries, big_runs: false }), any::<bool>(), proptest::option::weighted(0.35, ranges::range()), proptest::collection::vec(any::<u16>(), 0..6), prop_oneof![3 => Just(0u32), 1 => 1u32..64, 1 => 64u32..5000])
        .prop_map(|(l, asyncr, range, lookups, cap)| Case { l, asyncr, range, lookups, cap })
}

pub fn run(ctx: &Ctx) {
    ctx.rec.set_rule(
        "foreign layouts (24 section orders incl. tile data before / between the directory sections, gaps after every section, depth 1-3 with padded and shuffled leaves, 4 \
         internal compressions) opened through from_reader / from_reader_partially / from_async_reader / from_async_reader_partially on a recording stream (optionally with short \
         reads): every byte range delivered during opening must lie inside header ∪ metadata ∪ root ∪ leaf sections and must not touch the tile-data section, the header bytes \
         must be read; every get_tile_by_id(_async) - random ids, an ascending sweep over consecutive ids, a retry after a transient fault - must read exactly [offset, offset+length) of that tile. Non-trivial: tile data is not the last section, or a gap follows a \
         directory section; distinct by digest.",
    );
    run_proptest(ctx, "recorded-reads", PtCfg::new(ctx.lanes, ctx.tier.pick(600, 30_000)), || strategy(ctx.tier.pick(200, 1500)), check);
    for c in ["tile-data-not-last", "gap-after-directory-section", "with-leaves", "async", "sync", "partial-open", "lookups", "short-reads", "retry-after-transient-fault", "ascending-sweep-of-consecutive-ids", "internal-brotli", "internal-zstd", "internal-gzip", "internal-none"] {
        ctx.rec.floor(c, 20);
    }
}

pub fn replay(sub: &str, case: &Value) -> Option<CaseResult> {
    match sub {
        "recorded-reads" => Some(check(&super::de(case)?)),
        _ => None,
    }
}
