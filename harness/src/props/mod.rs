//! One module per property.

use crate::engine::{CaseResult, Ctx, Fail};
use serde_json::Value;
use std::path::Path;

pub mod c01;
pub mod c02;
pub mod c03;
pub mod c04;
pub mod c05;
pub mod c06;
pub mod c07;
pub mod c08;
pub mod c09;
pub mod c10;
pub mod c11;
pub mod c12;
pub mod c13;
pub mod c14;
pub mod c15;
pub mod c16;
pub mod c17;
pub mod c18;
pub mod c19;
pub mod c20;

pub struct Prop {
    pub id: &'static str,
    pub level: &'static str,
    pub run: fn(&Ctx),
    /// re-run one saved case: (sub-check name, case json) -> result
    pub replay: fn(&str, &Value) -> Option<CaseResult>,
}

pub const ALL: &[Prop] = &[
    Prop { id: "C01", level: "exploration", run: c01::run, replay: c01::replay },
    Prop { id: "C02", level: "exploration", run: c02::run, replay: c02::replay },
    Prop { id: "C03", level: "exploration", run: c03::run, replay: c03::replay },
    Prop { id: "C04", level: "exploration", run: c04::run, replay: c04::replay },
    Prop { id: "C05", level: "exploration", run: c05::run, replay: c05::replay },
    Prop { id: "C06", level: "exploration", run: c06::run, replay: c06::replay },
    Prop { id: "C07", level: "exploration", run: c07::run, replay: c07::replay },
    Prop { id: "C08", level: "exploration", run: c08::run, replay: c08::replay },
    Prop { id: "C09", level: "exploration", run: c09::run, replay: c09::replay },
    Prop { id: "C10", level: "exploration", run: c10::run, replay: c10::replay },
    Prop { id: "C11", level: "exploration", run: c11::run, replay: c11::replay },
    Prop { id: "C12", level: "exploration", run: c12::run, replay: c12::replay },
    Prop { id: "C13", level: "exploration", run: c13::run, replay: c13::replay },
    Prop { id: "C14", level: "exploration", run: c14::run, replay: c14::replay },
    Prop { id: "C15", level: "fault_enumeration", run: c15::run, replay: c15::replay },
    Prop { id: "C16", level: "exploration", run: c16::run, replay: c16::replay },
    Prop { id: "C17", level: "fault_enumeration", run: c17::run, replay: c17::replay },
    Prop { id: "C18", level: "exploration", run: c18::run, replay: c18::replay },
    Prop { id: "C19", level: "exploration", run: c19::run, replay: c19::replay },
    Prop { id: "C20", level: "exploration", run: c20::run, replay: c20::replay },
];

pub fn find(id: &str) -> Option<&'static Prop> {
    ALL.iter().find(|p| p.id == id)
}

/// Deserialize helper for replay functions.
pub fn de<T: serde::de::DeserializeOwned>(v: &Value) -> Option<T> {
    match serde_json::from_value::<T>(v.clone()) {
        Ok(t) => Some(t),
        Err(e) => {
            eprintln!("replay: case does not deserialize: {e}");
            None
        }
    }
}

/// Re-run a replay file, strict mode: prints the outcome; exit code 0 pass / 1 fail / 2 unusable.
pub fn replay_file(p: &Prop, path: &Path, verbose: bool) -> i32 {
    let Ok(b) = std::fs::read(path) else {
        eprintln!("cannot read {}", path.display());
        return 2;
    };
    let Ok(doc) = serde_json::from_slice::<Value>(&b) else {
        eprintln!("not json: {}", path.display());
        return 2;
    };
    let sub = doc.get("sub").and_then(Value::as_str).unwrap_or("").trim_start_matches("regress:");
    let case = doc.get("case").cloned().unwrap_or(Value::Null);
    let r = crate::engine::catch(|| (p.replay)(sub, &case));
    match r {
        Ok(Some(Ok(_))) => {
            if verbose {
                println!("REPLAY {} {}: property holds on this case", p.id, path.display());
            }
            0
        }
        Ok(Some(Err(f))) => {
            println!("VIOLATION property={} replay={}", p.id, path.display());
            println!("  signature: {}\n  {}", f.sig, f.msg);
            1
        }
        Ok(None) => {
            eprintln!("replay: unknown sub-check '{sub}' or undecodable case");
            2
        }
        Err(pi) => {
            println!("VIOLATION property={} replay={}", p.id, path.display());
            println!("  uncaught panic: {} at {}", pi.msg, pi.loc);
            1
        }
    }
}

/// Committed regression inputs: /verif/replays/<id>/regress/*.json — each must pass.
pub fn run_regressions(ctx: &Ctx, p: &Prop) {
    let dir = ctx.verif_dir.join("replays").join(p.id).join("regress");
    let Ok(rd) = std::fs::read_dir(&dir) else { return };
    let mut files: Vec<_> = rd.filter_map(Result::ok).map(|e| e.path()).filter(|p| p.extension().map_or(false, |x| x == "json")).collect();
    files.sort();
    let t0 = std::time::Instant::now();
    let mut acc = crate::engine::record::LaneAcc::default();
    for f in files {
        let Ok(b) = std::fs::read(&f) else { continue };
        let Ok(doc) = serde_json::from_slice::<Value>(&b) else { continue };
        let sub = doc.get("sub").and_then(Value::as_str).unwrap_or("").to_string();
        // (a case that was itself found by the regression tier carries the tier's prefix)
        let sub = sub.trim_start_matches("regress:").to_string();
        let case = doc.get("case").cloned().unwrap_or(Value::Null);
        let r = crate::engine::catch(|| (p.replay)(&sub, &case));
        acc.evals += 1;
        let fail = match r {
            Ok(Some(Ok(_))) => None,
            Ok(Some(Err(f))) => Some(f),
            Ok(None) => {
                ctx.rec.infra(&format!("regression file {} not replayable", f.display()));
                None
            }
            Err(pi) => Some(Fail::new(format!("panic/uncaught/{}", pi.site()), format!("{} at {}", pi.msg, pi.loc))),
        };
        if let Some(fl) = fail {
            ctx.rec.violation(&ctx.verif_dir, p.id, &format!("regress:{sub}"), &fl, case);
        }
    }
    if acc.evals > 0 {
        ctx.rec.merge("regression-replays", acc);
        ctx.rec.sub_done("regression-replays", true, t0.elapsed().as_secs_f64(), "committed shrunk failures, replayed without the generator");
    }
}
