//! The API battery executed on hostile input (inside the worker, or in-process by fuzz targets).
//! Every call only has to *return*; values are ignored.

use crate::engine::{catch, PanicInfo};
use crate::sandbox::Job;
use futures::executor::block_on;
use pmtiles2::{Compression, Directory, Header, PMTiles};

pub const API_NAMES: [&str; 13] = [
    "Header::from_bytes",
    "PMTiles::from_bytes",
    "PMTiles::from_bytes_partially",
    "PMTiles::get_tile_by_id/get_tile",
    "PMTiles::to_writer",
    "util::read_directories",
    "PMTiles::from_async_reader+get_tile_by_id_async+to_async_writer",
    "util::read_directories_async/from_async_reader_partially",
    "Directory::from_bytes/find_entry_for_tile_id",
    "Directory::from_async_reader",
    "util::decompress_all/decompress_async",
    "util::zxy/tile_id",
    "Header::from_async_reader",
];

pub const MASK_ARCHIVE: u32 = 0b1_0000_1111_1111;
pub const MASK_DIRECTORY: u32 = 0b0_0011_0000_0000;
pub const MASK_HEADER: u32 = 0b1_0000_0000_0001;
pub const MASK_DECOMPRESS: u32 = 0b0_0100_0000_0000;
pub const MASK_IDS: u32 = 0b0_1000_0000_0000;

pub fn default_mask(mode: u8) -> u32 {
    match mode {
        0 => MASK_ARCHIVE,
        1..=5 => MASK_DIRECTORY,
        6 => MASK_HEADER,
        7 => MASK_DECOMPRESS,
        _ => MASK_IDS,
    }
}

fn comp(code: u8) -> Compression {
    match code {
        1 => Compression::None,
        2 => Compression::GZip,
        3 => Compression::Brotli,
        4 => Compression::ZStd,
        _ => Compression::Unknown,
    }
}

fn probe_ids(ids: &mut Vec<u64>) -> Vec<u64> {
    ids.sort_unstable();
    let mut p: Vec<u64> = ids.iter().take(32).copied().collect();
    p.extend(ids.iter().rev().take(32));
    p.extend([0, 1, u64::MAX]);
    p
}

/// Returns Ok(number of API calls made) or Err((api name, panic)).
pub fn run(job: &Job) -> Result<u32, (&'static str, PanicInfo)> {
    let b = &job.bytes;
    let mut calls = 0u32;
    let on = |bit: u32| job.mask >> bit & 1 == 1;
    macro_rules! api {
        ($bit:expr, $body:expr) => {
            if on($bit) {
                calls += 1;
                pmtiles2::util::verif_counters::EXPANDED_TILES.store(0, std::sync::atomic::Ordering::Relaxed);
                pmtiles2::util::verif_counters::DIRECTORIES_READ.store(0, std::sync::atomic::Ordering::Relaxed);
                if let Err(p) = catch(|| $body) {
                    return Err((API_NAMES[$bit as usize], p));
                }
            }
        };
    }
    match job.mode {
        0 | 6 => {
            api!(0, {
                let _ = Header::from_bytes(b);
            });
            api!(12, {
                let mut r = futures::io::Cursor::new(&b[..]);
                let _ = block_on(Header::from_async_reader(&mut r));
            });
            if job.mode == 6 {
                return Ok(calls);
            }
            api!(1, {
                if let Ok(pm) = PMTiles::from_bytes(&b[..]) {
                    let _ = pm.tile_ids().len();
                    let _ = pm.num_tiles();
                }
            });
            api!(2, {
                let _ = PMTiles::from_bytes_partially(&b[..], ..0);
                let _ = PMTiles::from_bytes_partially(&b[..], 5..=u64::MAX);
                let _ = PMTiles::from_bytes_partially(&b[..], (std::ops::Bound::Excluded(u64::MAX - 1), std::ops::Bound::Unbounded));
            });
            api!(3, {
                if let Ok(mut pm) = PMTiles::from_bytes(&b[..]) {
                    let mut ids: Vec<u64> = pm.tile_ids().into_iter().copied().collect();
                    for id in probe_ids(&mut ids) {
                        let _ = pm.get_tile_by_id(id);
                    }
                    let _ = pm.get_tile(0, 0, 0);
                    let _ = pm.get_tile(u64::MAX, 1, 31);
                    let _ = pm.get_tile(1, 1, 200);
                    // coordinates at the edge of what the id space can hold (zooms 31, 32, 33; largest in-grid values)
                    for z in [31u8, 32, 33, 63, 64, 255] {
                        let m = if z >= 64 { u64::MAX } else { (1u64 << z) - 1 };
                        let _ = pm.get_tile(m, 0, z);
                        let _ = pm.get_tile(m, m, z);
                        let _ = pm.get_tile(0, m, z);
                    }
                }
            });
            api!(4, {
                if let Ok(pm) = PMTiles::from_bytes(&b[..]) {
                    let mut out = std::io::Cursor::new(Vec::new());
                    let _ = pm.to_writer(&mut out);
                }
            });
            api!(5, {
                if let Ok(h) = Header::from_bytes(b) {
                    let mut r = std::io::Cursor::new(&b[..]);
                    let _ = pmtiles2::util::read_directories(&mut r, h.internal_compression, (h.root_directory_offset, h.root_directory_length), h.leaf_directories_offset, ..);
                    let mut r = std::io::Cursor::new(&b[..]);
                    let _ = pmtiles2::util::read_directories(&mut r, h.internal_compression, (h.root_directory_offset, h.root_directory_length), h.leaf_directories_offset, 3..40);
                }
            });
            api!(6, {
                if let Ok(mut pm) = block_on(PMTiles::from_async_reader(futures::io::Cursor::new(&b[..]))) {
                    let mut ids: Vec<u64> = pm.tile_ids().into_iter().copied().collect();
                    for id in probe_ids(&mut ids) {
                        let _ = block_on(pm.get_tile_by_id_async(id));
                    }
                    let _ = block_on(pm.get_tile_async(u64::MAX, 0, 40));
                    for z in [31u8, 32, 33] {
                        let m = (1u64 << z) - 1;
                        let _ = block_on(pm.get_tile_async(m, m, z));
                        let _ = block_on(pm.get_tile_async(m, 0, z));
                    }
                    let mut out = futures::io::Cursor::new(Vec::new());
                    let _ = block_on(pm.to_async_writer(&mut out));
                }
            });
            api!(7, {
                if let Ok(h) = Header::from_bytes(b) {
                    let mut r = futures::io::Cursor::new(&b[..]);
                    let _ = block_on(pmtiles2::util::read_directories_async(&mut r, h.internal_compression, (h.root_directory_offset, h.root_directory_length), h.leaf_directories_offset, ..));
                }
                let _ = block_on(PMTiles::from_async_reader_partially(futures::io::Cursor::new(&b[..]), ..=3));
            });
        }
        1..=5 => {
            let c = comp(job.mode - 1);
            api!(8, {
                if let Ok(d) = Directory::from_bytes(b, c) {
                    let _ = d.find_entry_for_tile_id(0);
                    let _ = d.find_entry_for_tile_id(u64::MAX);
                    for e in (&d).into_iter().take(16) {
                        let _ = d.find_entry_for_tile_id(e.tile_id);
                        let _ = d.find_entry_for_tile_id(e.tile_id.wrapping_add(u64::from(e.run_length)));
                    }
                }
                let mut r = std::io::Cursor::new(&b[..]);
                let _ = Directory::from_reader(&mut r, (b.len() / 2) as u64, c);
            });
            api!(9, {
                let mut r = futures::io::Cursor::new(&b[..]);
                let _ = block_on(Directory::from_async_reader(&mut r, b.len() as u64, c));
            });
        }
        7 => {
            api!(10, {
                let c = comp(b.first().copied().unwrap_or(0) % 5);
                let _ = pmtiles2::util::decompress_all(c, &b[b.len().min(1)..]);
                let mut cur = futures::io::Cursor::new(&b[b.len().min(1)..]);
                let res = pmtiles2::util::decompress_async(c, &mut cur);
                if let Ok(mut r) = res {
                    use futures::AsyncReadExt;
                    let mut out = Vec::new();
                    let _ = block_on((&mut r).take(64 << 20).read_to_end(&mut out));
                    drop(r);
                };
            });
        }
        _ => {
            api!(11, {
                for ch in b.chunks(8) {
                    let mut x = [0u8; 8];
                    x[..ch.len()].copy_from_slice(ch);
                    let id = u64::from_le_bytes(x);
                    if let Ok((z, x, y)) = pmtiles2::util::zxy(id) {
                        let _ = pmtiles2::util::tile_id(z, x, y);
                    }
                }
            });
        }
    }
    Ok(calls)
}
