//! Watchdog + (later) sandboxed worker processes.

pub fn watchdog(secs: u64) {
    std::thread::spawn(move || {
        std::thread::sleep(std::time::Duration::from_secs(secs));
        eprintln!("INCONCLUSIVE: watchdog expired after {secs}s (budget hit, not a violation)");
        std::process::exit(2);
    });
}

pub fn worker_main() -> ! {
    std::process::exit(2)
}
