//! Sandboxed worker processes: aborts, allocation failures and stack overflows cannot be seen by
//! `catch_unwind`, so hostile inputs are executed in `vcheck worker` children. The parent knows
//! which case is in flight; on worker death it records the signal and the case and restarts.

pub mod battery;

use std::io::{BufRead, BufReader, Read, Write};
use std::process::{Child, ChildStdin, ChildStdout, Command, Stdio};
use std::sync::atomic::{AtomicBool, Ordering};
use std::sync::{Arc, Mutex};
use std::time::{Duration, Instant};

pub fn watchdog(secs: u64) {
    std::thread::spawn(move || {
        std::thread::sleep(Duration::from_secs(secs));
        eprintln!("INCONCLUSIVE: watchdog expired after {secs}s (budget hit, not a violation)");
        std::process::exit(2);
    });
}

pub const WORKER_AS_LIMIT: u64 = 8 << 30;
/// deliberately small (half of Rust's default thread stack): recursion that grows with the input shows up
/// long before the declared-work budget is reached; legitimate depth (<= 64 directory levels) needs a few dozen KiB
pub const WORKER_STACK: usize = 1 << 20;
pub const CASE_TIMEOUT: Duration = Duration::from_secs(40);
/// per API call (the counters are reset before each call of the battery)
pub const OBSERVED_MAX_TILES: u64 = 1 << 21;
pub const OBSERVED_MAX_VISITS: u64 = 10_000;

#[derive(Clone, Debug, PartialEq, Eq)]
pub enum Verdict {
    /// every API call returned (number of calls made)
    Returned(u32),
    /// a panic was caught in the worker: (api name, site, message)
    Panic(String, String, String),
    /// the worker process died: description (signal / exit code)
    Died(String),
    /// no answer within the per-case timeout; the worker was killed
    Timeout,
    /// infrastructure problem
    Infra(String),
    /// the worker observed (library counters, feature `verif`) that the input asks for more run-length
    /// expansion / directory visits than the stated budget and stopped itself: outside the claim
    OverBudget,
}

/// One frame: mode, api mask, payload.
#[derive(Clone, Debug, serde::Serialize, serde::Deserialize, PartialEq, Eq, Hash)]
pub struct Job {
    /// 0 archive bytes | 1..=5 directory bytes with compression code mode-1 | 6 header bytes |
    /// 7 decompress (first byte selects the codec) | 8 tile-id / zxy numbers
    pub mode: u8,
    pub mask: u32,
    #[serde(with = "hexbytes")]
    pub bytes: Vec<u8>,
}

pub mod hexbytes {
    use serde::{Deserialize, Deserializer, Serializer};
    pub fn serialize<S: Serializer>(b: &Vec<u8>, s: S) -> Result<S::Ok, S::Error> {
        s.serialize_str(&crate::engine::hex(b))
    }
    pub fn deserialize<'de, D: Deserializer<'de>>(d: D) -> Result<Vec<u8>, D::Error> {
        let s = String::deserialize(d)?;
        Ok(crate::engine::unhex(&s))
    }
}

pub struct Worker {
    child: Child,
    stdin: ChildStdin,
    stdout: BufReader<ChildStdout>,
    /// (deadline armed, start) shared with the monitor thread
    state: Arc<Mutex<Option<Instant>>>,
    killed: Arc<AtomicBool>,
    alive: Arc<AtomicBool>,
}

impl Worker {
    pub fn spawn() -> Result<Worker, String> {
        let exe = std::env::current_exe().map_err(|e| e.to_string())?;
        let mut child = Command::new(exe).arg("worker").stdin(Stdio::piped()).stdout(Stdio::piped()).stderr(if std::env::var("VERIF_WORKER_STDERR").is_ok() { Stdio::inherit() } else { Stdio::null() }).spawn().map_err(|e| e.to_string())?;
        let stdin = child.stdin.take().ok_or("no stdin")?;
        let stdout = BufReader::new(child.stdout.take().ok_or("no stdout")?);
        let state: Arc<Mutex<Option<Instant>>> = Arc::new(Mutex::new(None));
        let killed = Arc::new(AtomicBool::new(false));
        let alive = Arc::new(AtomicBool::new(true));
        let pid = child.id() as i32;
        {
            let state = state.clone();
            let killed = killed.clone();
            let alive = alive.clone();
            std::thread::spawn(move || {
                while alive.load(Ordering::Relaxed) {
                    std::thread::sleep(Duration::from_millis(200));
                    let started = *state.lock().unwrap();
                    if let Some(t0) = started {
                        if t0.elapsed() > CASE_TIMEOUT {
                            killed.store(true, Ordering::Relaxed);
                            unsafe {
                                libc::kill(pid, libc::SIGKILL);
                            }
                            *state.lock().unwrap() = None;
                        }
                    }
                }
            });
        }
        Ok(Worker { child, stdin, stdout, state, killed, alive })
    }

    fn send(&mut self, job: &Job) -> std::io::Result<()> {
        let mut frame = Vec::with_capacity(job.bytes.len() + 9);
        frame.extend_from_slice(&(job.bytes.len() as u32).to_le_bytes());
        frame.push(job.mode);
        frame.extend_from_slice(&job.mask.to_le_bytes());
        frame.extend_from_slice(&job.bytes);
        self.stdin.write_all(&frame)?;
        self.stdin.flush()
    }

    /// Run one job. On death the worker must be replaced by the caller.
    pub fn run(&mut self, job: &Job) -> Verdict {
        *self.state.lock().unwrap() = Some(Instant::now());
        let sent = self.send(job);
        let mut line = String::new();
        let got = if sent.is_ok() { self.stdout.read_line(&mut line) } else { Ok(0) };
        *self.state.lock().unwrap() = None;
        match got {
            Ok(n) if n > 0 && line.ends_with('\n') => {
                let line = line.trim_end();
                if let Some(rest) = line.strip_prefix("OK ") {
                    return Verdict::Returned(rest.parse().unwrap_or(0));
                }
                if line == "OVER" {
                    let _ = self.child.wait();
                    self.alive.store(false, Ordering::Relaxed);
                    return Verdict::OverBudget;
                }
                if let Some(rest) = line.strip_prefix("PANIC ") {
                    let mut it = rest.splitn(3, '\t');
                    let api = it.next().unwrap_or("").to_string();
                    let site = it.next().unwrap_or("").to_string();
                    let msg = it.next().unwrap_or("").to_string();
                    return Verdict::Panic(api, site, msg);
                }
                Verdict::Infra(format!("unparseable worker answer: {line}"))
            }
            _ => {
                // the worker died (or was killed by the monitor)
                let status = self.child.wait();
                self.alive.store(false, Ordering::Relaxed);
                if self.killed.load(Ordering::Relaxed) {
                    return Verdict::Timeout;
                }
                use std::os::unix::process::ExitStatusExt;
                match status {
                    Ok(st) => {
                        if let Some(sig) = st.signal() {
                            let name = match sig {
                                libc::SIGSEGV => "SIGSEGV (stack overflow / invalid access)",
                                libc::SIGABRT => "SIGABRT (abort: allocation failure or double panic)",
                                libc::SIGBUS => "SIGBUS",
                                libc::SIGKILL => "SIGKILL (out of memory killer?)",
                                libc::SIGILL => "SIGILL",
                                _ => "signal",
                            };
                            Verdict::Died(format!("signal {sig} {name}"))
                        } else {
                            Verdict::Died(format!("exit code {:?}", st.code()))
                        }
                    }
                    Err(e) => Verdict::Infra(format!("wait failed: {e}")),
                }
            }
        }
    }
}

impl Drop for Worker {
    fn drop(&mut self) {
        self.alive.store(false, Ordering::Relaxed);
        let _ = self.child.kill();
        let _ = self.child.wait();
    }
}

thread_local! {
    static TL_WORKER: std::cell::RefCell<Option<Worker>> = const { std::cell::RefCell::new(None) };
}

/// Run a job on this thread's worker (spawned lazily, replaced after a death).
pub fn run_job(job: &Job) -> Verdict {
    TL_WORKER.with(|w| {
        let mut w = w.borrow_mut();
        if w.is_none() {
            match Worker::spawn() {
                Ok(x) => *w = Some(x),
                Err(e) => return Verdict::Infra(format!("cannot spawn worker: {e}")),
            }
        }
        let v = w.as_mut().map(|x| x.run(job)).unwrap_or(Verdict::Infra("no worker".into()));
        if matches!(v, Verdict::Died(_) | Verdict::Timeout | Verdict::Infra(_) | Verdict::OverBudget) {
            *w = None; // respawn on next use
        }
        v
    })
}

/// After a death: find the single API bit that kills the worker (for the signature).
pub fn attribute(job: &Job) -> Option<u32> {
    for bit in 0..32u32 {
        if job.mask >> bit & 1 == 0 {
            continue;
        }
        let j = Job { mode: job.mode, mask: 1 << bit, bytes: job.bytes.clone() };
        if matches!(run_job(&j), Verdict::Died(_) | Verdict::Timeout) {
            return Some(bit);
        }
    }
    None
}

// ---- the child -----------------------------------------------------------------------------

pub fn worker_main() -> ! {
    unsafe {
        let lim = libc::rlimit { rlim_cur: WORKER_AS_LIMIT, rlim_max: WORKER_AS_LIMIT };
        libc::setrlimit(libc::RLIMIT_AS, &lim);
        let core = libc::rlimit { rlim_cur: 0, rlim_max: 0 };
        libc::setrlimit(libc::RLIMIT_CORE, &core);
    }
    crate::engine::panics::install_hook();
    // budget observer: the library (feature `verif`) counts expanded tile ids and directories read; when one API
    // call exceeds the stated budget the worker says so and stops before memory or time run out
    std::thread::spawn(|| loop {
        std::thread::sleep(Duration::from_micros(300));
        use pmtiles2::util::verif_counters::{DIRECTORIES_READ, EXPANDED_TILES};
        if EXPANDED_TILES.load(Ordering::Relaxed) > OBSERVED_MAX_TILES || DIRECTORIES_READ.load(Ordering::Relaxed) > OBSERVED_MAX_VISITS {
            let msg = b"OVER\n";
            unsafe {
                libc::write(1, msg.as_ptr().cast(), msg.len());
                libc::_exit(0);
            }
        }
    });
    let h = std::thread::Builder::new().stack_size(WORKER_STACK).spawn(worker_loop).expect("spawn worker thread");
    let _ = h.join();
    std::process::exit(0)
}

fn worker_loop() {
    let stdin = std::io::stdin();
    let mut inp = stdin.lock();
    let stdout = std::io::stdout();
    loop {
        let mut hdr = [0u8; 9];
        if inp.read_exact(&mut hdr).is_err() {
            return;
        }
        let len = u32::from_le_bytes(hdr[0..4].try_into().unwrap()) as usize;
        let mode = hdr[4];
        let mask = u32::from_le_bytes(hdr[5..9].try_into().unwrap());
        let mut bytes = vec![0u8; len];
        if inp.read_exact(&mut bytes).is_err() {
            return;
        }
        let job = Job { mode, mask, bytes };
        let line = match battery::run(&job) {
            Ok(n) => format!("OK {n}\n"),
            Err((api, p)) => format!("PANIC {}\t{}\t{}\n", api, p.site(), p.msg.replace(['\n', '\t'], " ")),
        };
        let mut out = stdout.lock();
        if out.write_all(line.as_bytes()).is_err() || out.flush().is_err() {
            return;
        }
    }
}
