//! Scheduled / faulting / recording streams (sync + async).
