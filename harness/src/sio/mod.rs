//! Scheduled / faulting / recording in-memory stream. One type implements the std traits
//! (`Read`/`Write`/`Seek`) and the futures traits (`AsyncRead`/`AsyncWrite`/`AsyncSeek`).
//!
//! * per-call transfer caps (short reads / short writes),
//! * per-poll `Pending` bits for the async side (waker woken before returning; at most 3 in a row),
//! * fail-stop faults: operation k and all later ones return an error,
//! * a log of every completed operation, the byte ranges delivered to readers, counters.
//!
//! The state sits behind `Arc<Mutex<_>>` so that a handle can be kept while the library owns the
//! stream (PMTiles::from_reader takes the reader by value).

use serde::{Deserialize, Serialize};
use std::io;
use std::pin::Pin;
use std::sync::{Arc, Mutex};
use std::task::{Context, Poll};

#[derive(Clone, Debug, PartialEq, Eq)]
pub enum OpRec {
    Read { pos: u64, want: usize, got: usize },
    Write { pos: u64, bytes: Vec<u8> },
    Seek { from: u64, to: u64 },
    Flush,
    Close,
}

#[derive(Clone, Debug, Default, PartialEq, Eq, Hash, Serialize, Deserialize)]
pub struct Sched {
    /// cap of the i-th transfer call (0 = unlimited)
    pub caps: Vec<u32>,
    /// after the list: repeat it (true) or unlimited (false)
    pub cycle: bool,
    /// Pending bit of the i-th poll
    pub pending: Vec<bool>,
    pub pending_cycle: bool,
    /// operation index from which every operation fails
    pub fail_from: Option<u64>,
    /// operation index that fails exactly once (transient fault; the operations after it work again)
    #[serde(default)]
    pub fail_once_at: Option<u64>,
    /// from this operation index on, write calls accept nothing and return Ok(0) (a sink that is full);
    /// reads, seeks and flushes keep working
    #[serde(default)]
    pub zero_write_from: Option<u64>,
    /// the stream is a fixed-size sink: nothing can be written at or beyond this byte position (writes are cut
    /// short at the limit and return Ok(0) once it is reached), like `Cursor<&mut [u8]>` or a full device
    #[serde(default)]
    pub capacity: Option<u64>,
}

impl Sched {
    pub fn none() -> Sched {
        Sched::default()
    }
    pub fn fixed_cap(n: u32) -> Sched {
        Sched { caps: vec![n], cycle: true, ..Sched::default() }
    }
    pub fn failing_from(k: u64) -> Sched {
        Sched { fail_from: Some(k), ..Sched::default() }
    }
}

#[derive(Default)]
pub struct Core {
    pub data: Vec<u8>,
    pub pos: u64,
    pub sched: Sched,
    pub calls: usize,
    pub polls: usize,
    pub consecutive_pending: u32,
    pub ops: u64,
    pub log: Vec<OpRec>,
    pub keep_log: bool,
    pub delivered: Vec<(u64, u64)>,
    pub shortened: u64,
    pub pendings: u64,
    pub closes: u32,
    pub writes_after_close: u64,
    pub faults_returned: u64,
    /// number of operations that completed successfully
    pub ok_ops: u64,
}

pub const FAULT_MSG: &str = "injected I/O fault";
pub const BUDGET_MSG: &str = "verif stream: operation budget exhausted (more than 16 operations per byte: livelock?)";

impl Core {
    fn fault(&mut self) -> Option<io::Error> {
        let k = self.ops;
        self.ops += 1;
        // livelock guard (deterministic, no clock): a caller that needs more than 16 operations per byte of the
        // stream (plus slack) is re-reading or re-writing without end; from then on every operation fails, which
        // the caller has to report - the outcome then differs from the in-memory one and is judged as such
        if k > 16 * (self.data.len() as u64 + 4096) + 20_000 {
            self.faults_returned += 1;
            return Some(io::Error::new(io::ErrorKind::Other, BUDGET_MSG));
        }
        if self.sched.fail_once_at == Some(k) {
            self.faults_returned += 1;
            return Some(io::Error::new(io::ErrorKind::TimedOut, "injected transient I/O fault"));
        }
        match self.sched.fail_from {
            Some(f) if k >= f => {
                self.faults_returned += 1;
                Some(io::Error::new(io::ErrorKind::Other, FAULT_MSG))
            }
            _ => None,
        }
    }
    fn cap(&mut self) -> usize {
        let i = self.calls;
        self.calls += 1;
        let c = if self.sched.caps.is_empty() {
            0
        } else if i < self.sched.caps.len() {
            self.sched.caps[i]
        } else if self.sched.cycle {
            self.sched.caps[i % self.sched.caps.len()]
        } else {
            0
        };
        if c == 0 {
            usize::MAX
        } else {
            c as usize
        }
    }
    fn pending(&mut self) -> bool {
        let i = self.polls;
        self.polls += 1;
        let bit = if self.sched.pending.is_empty() {
            false
        } else if i < self.sched.pending.len() {
            self.sched.pending[i]
        } else if self.sched.pending_cycle {
            self.sched.pending[i % self.sched.pending.len()]
        } else {
            false
        };
        if bit && self.consecutive_pending < 3 {
            self.consecutive_pending += 1;
            self.pendings += 1;
            true
        } else {
            self.consecutive_pending = 0;
            false
        }
    }
    fn do_read(&mut self, buf: &mut [u8]) -> io::Result<usize> {
        if let Some(e) = self.fault() {
            return Err(e);
        }
        let cap = self.cap();
        let avail = (self.data.len() as u64).saturating_sub(self.pos) as usize;
        let full = buf.len().min(avail);
        let n = full.min(cap);
        if n < full {
            self.shortened += 1;
        }
        if n > 0 {
            // (a position beyond the end of the data is legal after a seek; nothing to copy then)
            let p = self.pos as usize;
            buf[..n].copy_from_slice(&self.data[p..p + n]);
            self.delivered.push((self.pos, self.pos + n as u64));
        }
        if self.keep_log {
            self.log.push(OpRec::Read { pos: self.pos, want: buf.len(), got: n });
        }
        self.pos += n as u64;
        self.ok_ops += 1;
        Ok(n)
    }
    fn do_write(&mut self, buf: &[u8]) -> io::Result<usize> {
        let k = self.ops;
        if let Some(e) = self.fault() {
            return Err(e);
        }
        if self.sched.zero_write_from.map_or(false, |z| k >= z) && !buf.is_empty() {
            self.faults_returned += 1;
            return Ok(0);
        }
        let cap = self.cap();
        let mut n = buf.len().min(cap);
        if let Some(limit) = self.sched.capacity {
            let room = limit.saturating_sub(self.pos) as usize;
            if room < n {
                n = room;
                self.faults_returned += 1;
            }
        }
        if n < buf.len() {
            self.shortened += 1;
        }
        if self.closes > 0 {
            self.writes_after_close += 1;
        }
        let p = self.pos as usize;
        if self.data.len() < p + n {
            self.data.resize(p + n, 0);
        }
        self.data[p..p + n].copy_from_slice(&buf[..n]);
        if self.keep_log {
            self.log.push(OpRec::Write { pos: self.pos, bytes: buf[..n].to_vec() });
        }
        self.pos += n as u64;
        self.ok_ops += 1;
        Ok(n)
    }
    fn do_seek(&mut self, base: u8, off: i128) -> io::Result<u64> {
        if let Some(e) = self.fault() {
            return Err(e);
        }
        let b: i128 = match base {
            0 => 0,
            1 => self.data.len() as i128,
            _ => self.pos as i128,
        };
        let t = b + off;
        if t < 0 || t > i128::from(u64::MAX) {
            return Err(io::Error::new(io::ErrorKind::InvalidInput, "invalid seek to a negative or overflowing position"));
        }
        if self.keep_log {
            self.log.push(OpRec::Seek { from: self.pos, to: t as u64 });
        }
        self.pos = t as u64;
        self.ok_ops += 1;
        Ok(self.pos)
    }
    fn do_flush(&mut self) -> io::Result<()> {
        if let Some(e) = self.fault() {
            return Err(e);
        }
        if self.keep_log {
            self.log.push(OpRec::Flush);
        }
        self.ok_ops += 1;
        Ok(())
    }
    fn do_close(&mut self) -> io::Result<()> {
        if let Some(e) = self.fault() {
            return Err(e);
        }
        self.closes += 1;
        if self.keep_log {
            self.log.push(OpRec::Close);
        }
        self.ok_ops += 1;
        Ok(())
    }
}

#[derive(Clone)]
pub struct Stream(pub Arc<Mutex<Core>>);

impl Stream {
    pub fn new(data: Vec<u8>, pos: u64, sched: Sched, keep_log: bool) -> Stream {
        Stream(Arc::new(Mutex::new(Core { data, pos, sched, keep_log, ..Core::default() })))
    }
    pub fn reader(data: Vec<u8>, sched: Sched) -> Stream {
        Stream::new(data, 0, sched, false)
    }
    pub fn writer(sched: Sched) -> Stream {
        Stream::new(Vec::new(), 0, sched, false)
    }
    pub fn with<T>(&self, f: impl FnOnce(&mut Core) -> T) -> T {
        f(&mut self.0.lock().unwrap())
    }
    pub fn data(&self) -> Vec<u8> {
        self.with(|c| c.data.clone())
    }
    pub fn pos(&self) -> u64 {
        self.with(|c| c.pos)
    }
    pub fn ops(&self) -> u64 {
        self.with(|c| c.ops)
    }
    pub fn log(&self) -> Vec<OpRec> {
        self.with(|c| c.log.clone())
    }
    /// merged, sorted byte ranges delivered to the reader
    pub fn delivered(&self) -> Vec<(u64, u64)> {
        let mut v = self.with(|c| c.delivered.clone());
        v.sort_unstable();
        let mut out: Vec<(u64, u64)> = Vec::new();
        for (a, b) in v {
            if let Some(l) = out.last_mut() {
                if a <= l.1 {
                    l.1 = l.1.max(b);
                    continue;
                }
            }
            out.push((a, b));
        }
        out
    }
    pub fn clear_delivered(&self) {
        self.with(|c| c.delivered.clear());
    }
}

fn split_std(s: io::SeekFrom) -> (u8, i128) {
    match s {
        io::SeekFrom::Start(n) => (0, i128::from(n)),
        io::SeekFrom::End(n) => (1, i128::from(n)),
        io::SeekFrom::Current(n) => (2, i128::from(n)),
    }
}

impl io::Read for Stream {
    fn read(&mut self, buf: &mut [u8]) -> io::Result<usize> {
        self.with(|c| c.do_read(buf))
    }
}
impl io::Write for Stream {
    fn write(&mut self, buf: &[u8]) -> io::Result<usize> {
        self.with(|c| c.do_write(buf))
    }
    fn flush(&mut self) -> io::Result<()> {
        self.with(Core::do_flush)
    }
}
impl io::Seek for Stream {
    fn seek(&mut self, pos: io::SeekFrom) -> io::Result<u64> {
        let (b, o) = split_std(pos);
        self.with(|c| c.do_seek(b, o))
    }
}

macro_rules! maybe_pending {
    ($self:expr, $cx:expr) => {
        if $self.with(Core::pending) {
            $cx.waker().wake_by_ref();
            return Poll::Pending;
        }
    };
}

impl futures::io::AsyncRead for Stream {
    fn poll_read(self: Pin<&mut Self>, cx: &mut Context<'_>, buf: &mut [u8]) -> Poll<io::Result<usize>> {
        maybe_pending!(self, cx);
        Poll::Ready(self.with(|c| c.do_read(buf)))
    }
}
impl futures::io::AsyncWrite for Stream {
    fn poll_write(self: Pin<&mut Self>, cx: &mut Context<'_>, buf: &[u8]) -> Poll<io::Result<usize>> {
        maybe_pending!(self, cx);
        Poll::Ready(self.with(|c| c.do_write(buf)))
    }
    fn poll_flush(self: Pin<&mut Self>, cx: &mut Context<'_>) -> Poll<io::Result<()>> {
        maybe_pending!(self, cx);
        Poll::Ready(self.with(Core::do_flush))
    }
    fn poll_close(self: Pin<&mut Self>, cx: &mut Context<'_>) -> Poll<io::Result<()>> {
        maybe_pending!(self, cx);
        Poll::Ready(self.with(Core::do_close))
    }
}
impl futures::io::AsyncSeek for Stream {
    fn poll_seek(self: Pin<&mut Self>, cx: &mut Context<'_>, pos: io::SeekFrom) -> Poll<io::Result<u64>> {
        maybe_pending!(self, cx);
        let (b, o) = split_std(pos);
        Poll::Ready(self.with(|c| c.do_seek(b, o)))
    }
}

/// Image of a fresh, empty, zero-filling stream after replaying the first `k` operations of `log`
/// (each write atomic).
pub fn replay_image(log: &[OpRec], k: usize) -> Vec<u8> {
    let mut img: Vec<u8> = Vec::new();
    for op in log.iter().take(k) {
        if let OpRec::Write { pos, bytes } = op {
            let p = *pos as usize;
            if img.len() < p + bytes.len() {
                img.resize(p + bytes.len(), 0);
            }
            img[p..p + bytes.len()].copy_from_slice(bytes);
        }
    }
    img
}
