//! Codecs called directly on the upstream crates (flate2 / brotli / zstd), never through pmtiles2.

use std::io::{Read, Write};

pub const NONE: u8 = 1;
pub const GZIP: u8 = 2;
pub const BROTLI: u8 = 3;
pub const ZSTD: u8 = 4;

pub fn name(c: u8) -> &'static str {
    match c {
        0 => "unknown",
        1 => "none",
        2 => "gzip",
        3 => "brotli",
        4 => "zstd",
        _ => "?",
    }
}

pub fn to_lib(c: u8) -> pmtiles2::Compression {
    match c {
        1 => pmtiles2::Compression::None,
        2 => pmtiles2::Compression::GZip,
        3 => pmtiles2::Compression::Brotli,
        4 => pmtiles2::Compression::ZStd,
        _ => pmtiles2::Compression::Unknown,
    }
}

pub fn from_lib(c: pmtiles2::Compression) -> u8 {
    match c {
        pmtiles2::Compression::Unknown => 0,
        pmtiles2::Compression::None => 1,
        pmtiles2::Compression::GZip => 2,
        pmtiles2::Compression::Brotli => 3,
        pmtiles2::Compression::ZStd => 4,
    }
}

/// Foreign-writer style parameters (deliberately unlike the library's choices).
#[derive(Clone, Copy, Debug, Default, serde::Serialize, serde::Deserialize, Hash, PartialEq, Eq)]
pub struct Params {
    /// gzip level 0-9 / brotli quality 0-9 / zstd level 1-9, taken modulo the codec's range
    pub level: u8,
    /// gzip: add a file-name header field; brotli: window 16 + (flag%5); zstd: checksum on
    pub flag: u8,
}

pub fn compress(c: u8, data: &[u8], p: Params) -> Vec<u8> {
    match c {
        NONE => data.to_vec(),
        GZIP => {
            let lvl = flate2::Compression::new(u32::from(p.level % 10));
            let mut b = flate2::GzBuilder::new();
            if p.flag & 1 == 1 {
                b = b.filename("dir.bin").comment("foreign writer");
            }
            if p.flag & 2 == 2 {
                b = b.mtime(1_600_000_000);
            }
            let mut e = b.write(Vec::new(), lvl);
            e.write_all(data).expect("gz write");
            e.finish().expect("gz finish")
        }
        BROTLI => {
            let q = u32::from(p.level % 10);
            let w = 16 + u32::from(p.flag % 5);
            let mut out = Vec::new();
            {
                let mut e = brotli::CompressorWriter::new(&mut out, 4096, q, w);
                e.write_all(data).expect("br write");
                e.flush().expect("br flush");
            }
            out
        }
        ZSTD => {
            let lvl = 1 + i32::from(p.level % 9);
            let mut e = zstd::stream::write::Encoder::new(Vec::new(), lvl).expect("zstd enc");
            if p.flag & 1 == 1 {
                let _ = e.include_checksum(true);
            }
            e.write_all(data).expect("zstd write");
            e.finish().expect("zstd finish")
        }
        _ => panic!("codec {c}"),
    }
}

/// Whatever a streaming reader would see before the stream breaks: the decoded prefix (bounded by
/// `limit`) and whether the budget was exceeded. Used by the budget walker, which must be at least
/// as generous as a reader that consumes varints while the codec is still delivering data.
pub fn decompress_lenient(c: u8, data: &[u8], limit: usize) -> (Vec<u8>, bool) {
    fn drain(mut r: impl Read, limit: usize) -> (Vec<u8>, bool) {
        let mut out = Vec::new();
        let mut buf = vec![0u8; 4096];
        loop {
            // a reader that pulls varints byte by byte sees every byte a decoder can deliver before it hits
            // the broken spot, whereas one big read() loses what was decoded inside the failing call: read
            // byte-wise (first MiB) to get the maximal prefix
            let want = if out.len() < (1 << 20) { 1 } else { buf.len() };
            match r.read(&mut buf[..want]) {
                Ok(0) => return (out, false),
                Ok(n) => {
                    out.extend_from_slice(&buf[..n]);
                    if out.len() > limit {
                        return (out, true);
                    }
                }
                Err(e) if e.kind() == std::io::ErrorKind::Interrupted => {}
                Err(_) => return (out, false),
            }
        }
    }
    match c {
        NONE => (data[..data.len().min(limit)].to_vec(), data.len() > limit),
        GZIP => drain(flate2::read::GzDecoder::new(data), limit),
        BROTLI => drain(brotli::Decompressor::new(data, 4096), limit),
        ZSTD => match zstd::stream::read::Decoder::new(data) {
            Ok(d) => drain(d, limit),
            Err(_) => (Vec::new(), false),
        },
        _ => (Vec::new(), false),
    }
}

/// Decompress the whole of `data`; `limit` bounds the output (budget rule). Returns the bytes and
/// whether the decoder consumed all input.
pub fn decompress(c: u8, data: &[u8], limit: usize) -> Result<(Vec<u8>, bool), String> {
    fn drain(mut r: impl Read, limit: usize) -> Result<Vec<u8>, String> {
        let mut out = Vec::new();
        let mut buf = vec![0u8; 16384];
        loop {
            match r.read(&mut buf) {
                Ok(0) => return Ok(out),
                Ok(n) => {
                    out.extend_from_slice(&buf[..n]);
                    if out.len() > limit {
                        return Err(format!("output exceeds budget of {limit} bytes"));
                    }
                }
                Err(e) if e.kind() == std::io::ErrorKind::Interrupted => {}
                Err(e) => return Err(format!("decode error: {e}")),
            }
        }
    }
    match c {
        NONE => {
            if data.len() > limit {
                return Err("exceeds budget".into());
            }
            Ok((data.to_vec(), true))
        }
        GZIP => {
            let mut cur = std::io::Cursor::new(data);
            let out = drain(flate2::read::GzDecoder::new(&mut cur), limit)?;
            let all = cur.position() as usize == data.len();
            Ok((out, all))
        }
        BROTLI => {
            let mut cur = std::io::Cursor::new(data);
            let out = drain(brotli::Decompressor::new(&mut cur, 4096), limit)?;
            let all = cur.position() as usize == data.len();
            Ok((out, all))
        }
        ZSTD => {
            let mut cur = std::io::Cursor::new(data);
            let dec = zstd::stream::read::Decoder::new(&mut cur).map_err(|e| e.to_string())?.single_frame();
            let out = drain(dec, limit)?;
            let all = cur.position() as usize == data.len();
            Ok((out, all))
        }
        _ => Err(format!("codec code {c} cannot be decoded")),
    }
}
