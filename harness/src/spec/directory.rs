//! Directory wire format (spec §4): count, delta-coded ids, run lengths, lengths, offsets where
//! 0 means "contiguous with the previous entry" (only for index > 0) and anything else is offset+1.

use super::varint;

#[derive(Clone, Copy, Debug, PartialEq, Eq, Hash, serde::Serialize, serde::Deserialize)]
pub struct SEntry {
    pub id: u64,
    pub off: u64,
    pub len: u32,
    pub run: u32,
}

/// Encode. `elide`: use the 0 = contiguous short form whenever it applies (what the specification
/// says a writer does); with `elide == false` every offset is written as offset+1, which every
/// conforming reader must accept as well.
pub fn encode(entries: &[SEntry], elide: bool) -> Vec<u8> {
    from_values(&values(entries, elide))
}

/// The varint values of the encoding, in wire order: count, id deltas, run lengths, lengths, offsets.
pub fn values(entries: &[SEntry], elide: bool) -> Vec<u64> {
    let mut out = Vec::with_capacity(entries.len() * 4 + 1);
    out.push(entries.len() as u64);
    let mut last = 0u64;
    for e in entries {
        out.push(e.id - last);
        last = e.id;
    }
    for e in entries {
        out.push(u64::from(e.run));
    }
    for e in entries {
        out.push(u64::from(e.len));
    }
    for (i, e) in entries.iter().enumerate() {
        if elide && i > 0 && e.off == entries[i - 1].off + u64::from(entries[i - 1].len) {
            out.push(0);
        } else {
            out.push(e.off + 1);
        }
    }
    out
}

pub fn from_values(vals: &[u64]) -> Vec<u8> {
    let mut out = Vec::with_capacity(vals.len() * 2);
    for v in vals {
        varint::put(&mut out, *v);
    }
    out
}

#[derive(Debug, Clone, PartialEq, Eq)]
pub enum DirErr {
    Varint(String),
    CountTooBig(u64),
    IdOverflow,
    FieldTooBig(&'static str, u64),
    ZeroLength(usize),
    ZeroFirstOffset,
    OffsetOverflow,
    Trailing(usize),
}

/// Decode with checked arithmetic. Returns entries and the number of bytes consumed.
pub fn decode(buf: &[u8]) -> Result<(Vec<SEntry>, usize), DirErr> {
    let mut pos = 0usize;
    let g = |pos: &mut usize| varint::get(buf, pos).map_err(|e| DirErr::Varint(format!("{e:?} at {}", *pos)));
    let n = g(&mut pos)?;
    // every entry needs at least 4 bytes
    if n > (buf.len() as u64) {
        return Err(DirErr::CountTooBig(n));
    }
    let n = n as usize;
    let mut es = vec![SEntry { id: 0, off: 0, len: 0, run: 0 }; n];
    let mut last = 0u64;
    for e in es.iter_mut() {
        let d = g(&mut pos)?;
        last = last.checked_add(d).ok_or(DirErr::IdOverflow)?;
        e.id = last;
    }
    for e in es.iter_mut() {
        let v = g(&mut pos)?;
        e.run = u32::try_from(v).map_err(|_| DirErr::FieldTooBig("run_length", v))?;
    }
    for (i, e) in es.iter_mut().enumerate() {
        let v = g(&mut pos)?;
        e.len = u32::try_from(v).map_err(|_| DirErr::FieldTooBig("length", v))?;
        if e.len == 0 {
            return Err(DirErr::ZeroLength(i));
        }
    }
    for i in 0..n {
        let v = g(&mut pos)?;
        es[i].off = if v == 0 {
            if i == 0 {
                return Err(DirErr::ZeroFirstOffset);
            }
            es[i - 1].off.checked_add(u64::from(es[i - 1].len)).ok_or(DirErr::OffsetOverflow)?
        } else {
            v - 1
        };
    }
    Ok((es, pos))
}

/// Validity of an entry list as a directory per the specification: ids strictly ascending,
/// runs non-overlapping (a leaf pointer occupies just its id), lengths >= 1.
pub fn valid(entries: &[SEntry]) -> Result<(), String> {
    let mut prev_end: Option<u64> = None; // first id not covered by previous entry
    for (i, e) in entries.iter().enumerate() {
        if e.len == 0 {
            return Err(format!("entry {i}: length 0"));
        }
        if let Some(pe) = prev_end {
            if e.id < pe {
                return Err(format!("entry {i}: id {} overlaps/does not ascend past {}", e.id, pe));
            }
        }
        let span = u64::from(e.run.max(1));
        prev_end = Some(e.id.checked_add(span).ok_or_else(|| format!("entry {i}: id+run overflows"))?);
    }
    Ok(())
}
