//! The 127-byte header, by fixed offsets (spec §3). Coordinates are raw i32 (1e-7 degree units).

#[derive(Clone, Debug, PartialEq, Eq, serde::Serialize, serde::Deserialize, Hash)]
pub struct SHeader {
    pub root_off: u64,
    pub root_len: u64,
    pub meta_off: u64,
    pub meta_len: u64,
    pub leaf_off: u64,
    pub leaf_len: u64,
    pub data_off: u64,
    pub data_len: u64,
    pub n_addressed: u64,
    pub n_entries: u64,
    pub n_contents: u64,
    pub clustered: u8,
    pub internal: u8,
    pub tile_comp: u8,
    pub tile_type: u8,
    pub min_zoom: u8,
    pub max_zoom: u8,
    pub min_lon: i32,
    pub min_lat: i32,
    pub max_lon: i32,
    pub max_lat: i32,
    pub center_zoom: u8,
    pub center_lon: i32,
    pub center_lat: i32,
}

pub const LEN: usize = 127;

impl SHeader {
    pub fn encode(&self) -> [u8; LEN] {
        let mut b = [0u8; LEN];
        b[0..7].copy_from_slice(b"PMTiles");
        b[7] = 3;
        let u64s = [
            self.root_off,
            self.root_len,
            self.meta_off,
            self.meta_len,
            self.leaf_off,
            self.leaf_len,
            self.data_off,
            self.data_len,
            self.n_addressed,
            self.n_entries,
            self.n_contents,
        ];
        for (i, v) in u64s.iter().enumerate() {
            b[8 + 8 * i..16 + 8 * i].copy_from_slice(&v.to_le_bytes());
        }
        b[96] = self.clustered;
        b[97] = self.internal;
        b[98] = self.tile_comp;
        b[99] = self.tile_type;
        b[100] = self.min_zoom;
        b[101] = self.max_zoom;
        b[102..106].copy_from_slice(&self.min_lon.to_le_bytes());
        b[106..110].copy_from_slice(&self.min_lat.to_le_bytes());
        b[110..114].copy_from_slice(&self.max_lon.to_le_bytes());
        b[114..118].copy_from_slice(&self.max_lat.to_le_bytes());
        b[118] = self.center_zoom;
        b[119..123].copy_from_slice(&self.center_lon.to_le_bytes());
        b[123..127].copy_from_slice(&self.center_lat.to_le_bytes());
        b
    }

    /// Validity per the specification: magic, version 3, compression code <= 4, tile type <= 5
    /// (type 5 = AVIF was added to v3 later; the library knows it), clustered in {0,1}.
    pub fn decode(b: &[u8]) -> Result<SHeader, String> {
        if b.len() < LEN {
            return Err(format!("short header: {} bytes", b.len()));
        }
        if &b[0..7] != b"PMTiles" {
            return Err("bad magic".into());
        }
        if b[7] != 3 {
            return Err(format!("version {}", b[7]));
        }
        let u = |i: usize| u64::from_le_bytes(b[8 + 8 * i..16 + 8 * i].try_into().unwrap());
        let i4 = |o: usize| i32::from_le_bytes(b[o..o + 4].try_into().unwrap());
        if b[97] > 4 {
            return Err(format!("internal compression code {}", b[97]));
        }
        if b[98] > 4 {
            return Err(format!("tile compression code {}", b[98]));
        }
        if b[99] > 5 {
            return Err(format!("tile type code {}", b[99]));
        }
        Ok(SHeader {
            root_off: u(0),
            root_len: u(1),
            meta_off: u(2),
            meta_len: u(3),
            leaf_off: u(4),
            leaf_len: u(5),
            data_off: u(6),
            data_len: u(7),
            n_addressed: u(8),
            n_entries: u(9),
            n_contents: u(10),
            clustered: b[96],
            internal: b[97],
            tile_comp: b[98],
            tile_type: b[99],
            min_zoom: b[100],
            max_zoom: b[101],
            min_lon: i4(102),
            min_lat: i4(106),
            max_lon: i4(110),
            max_lat: i4(114),
            center_zoom: b[118],
            center_lon: i4(119),
            center_lat: i4(123),
        })
    }
}

/// Nearest integer(s) to v * 10^7 in exact rational arithmetic. Returns the set of acceptable
/// stored values: one value normally; both neighbours when v*1e7 lies within one double rounding
/// error (2^-52 * |v*1e7|) of an exact half-step tie.
pub fn nearest_e7(v: f64) -> Vec<i64> {
    if !v.is_finite() {
        return vec![];
    }
    if v == 0.0 {
        return vec![0];
    }
    let bits = v.to_bits();
    let neg = bits >> 63 == 1;
    let exp = ((bits >> 52) & 0x7ff) as i64;
    let frac = bits & ((1u64 << 52) - 1);
    let (m, e) = if exp == 0 { (frac, -1074i64) } else { (frac | (1u64 << 52), exp - 1075) };
    // |v| = m * 2^e ;  |v|*1e7 = m*1e7 * 2^e
    let num = u128::from(m) * 10_000_000u128; // < 2^77
    let (fl, rem, den): (u128, u128, u128) = if e >= 0 {
        if e > 40 {
            return vec![];
        }
        (num << e, 0, 1)
    } else {
        let s = (-e) as u32;
        if s >= 127 {
            (0, 0, 1) // far below half a step
        } else {
            let den = 1u128 << s;
            (num / den, num % den, den)
        }
    };
    if fl > (1u128 << 40) {
        return vec![];
    }
    // distance of the fractional part from 1/2, in units of 1/den
    let twice = rem * 2;
    let lo = fl as i64;
    let mut out: Vec<i64> = Vec::new();
    // tolerance: 2^-52 * value  (one rounding error of the f64 product)
    // |frac - 1/2| <= tol  <=>  |2*rem - den| * 2^52 <= 2 * num   (all scaled by den)
    let diff = if twice > den { twice - den } else { den - twice };
    let near_tie = den > 1 && (diff.checked_mul(1u128 << 51).map_or(false, |d| d <= num));
    if den == 1 || rem == 0 {
        out.push(lo);
    } else if near_tie {
        out.push(lo);
        out.push(lo + 1);
    } else if twice > den {
        out.push(lo + 1);
    } else {
        out.push(lo);
    }
    if neg {
        for x in &mut out {
            *x = -*x;
        }
    }
    out
}
