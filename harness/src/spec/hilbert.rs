//! Tile-ID <-> Z/X/Y, following the specification's iterative rotate-and-flip formulation of the
//! Hilbert curve (the one in the reference implementations' `zxy_to_tileid` / `tileid_to_zxy`),
//! on plain u64 arithmetic. No lookup tables, nothing shared with `hilbert_2d`.

/// number of tiles in all zooms below z: (4^z - 1) / 3
pub fn base(z: u32) -> u128 {
    ((1u128 << (2 * z)) - 1) / 3
}

/// first id that belongs to zoom 32 (= number of ids of zooms 0..=31)
pub fn domain_end() -> u64 {
    base(32) as u64
}

fn rotate(n: u64, x: &mut u64, y: &mut u64, rx: u64, ry: u64) {
    if ry == 0 {
        if rx == 1 {
            // only the bits below n matter from here on (the callers test bits < n afterwards)
            *x = n - 1 - (*x & (n - 1));
            *y = n - 1 - (*y & (n - 1));
        }
        std::mem::swap(x, y);
    }
}

/// (z,x,y) with z <= 31 and x,y < 2^z -> tile id
pub fn zxy_to_id(z: u8, x: u64, y: u64) -> Option<u64> {
    if z > 31 {
        return None;
    }
    let n: u64 = 1u64 << z;
    if x >= n || y >= n {
        return None;
    }
    let (mut tx, mut ty) = (x, y);
    let mut d: u64 = 0;
    let mut s = n / 2;
    while s > 0 {
        let rx = u64::from(tx & s > 0);
        let ry = u64::from(ty & s > 0);
        d += s * s * ((3 * rx) ^ ry);
        rotate(s, &mut tx, &mut ty, rx, ry);
        s /= 2;
    }
    Some(base(u32::from(z)) as u64 + d)
}

/// tile id -> (z,x,y); None for ids at or beyond the first id of zoom 32
pub fn id_to_zxy(id: u64) -> Option<(u8, u64, u64)> {
    if id >= domain_end() {
        return None;
    }
    let mut z = 0u32;
    while u128::from(id) >= base(z + 1) {
        z += 1;
    }
    let mut t = id - base(z) as u64;
    let n: u64 = 1u64 << z;
    let (mut x, mut y) = (0u64, 0u64);
    let mut s = 1u64;
    while s < n {
        let rx = 1 & (t / 2);
        let ry = 1 & (t ^ rx);
        rotate(s, &mut x, &mut y, rx, ry);
        x += s * rx;
        y += s * ry;
        t /= 4;
        s *= 2;
    }
    Some((z as u8, x, y))
}
