//! Independent, specification-level PMTiles v3 code. Written from the specification text
//! (https://github.com/protomaps/PMTiles/blob/main/spec/v3/spec.md); shares no code with
//! pmtiles2, integer-encoding, deku or hilbert_2d.

pub mod codec;
pub mod directory;
pub mod header;
pub mod hilbert;
pub mod reader;
pub mod varint;
pub mod writer;

pub use directory::SEntry;
pub use header::SHeader;
