//! Independent whole-archive reader: header, section bounds, recursive directory walk with
//! depth limit / visited set / budgets, the specification's lookup procedure, and the strict
//! conformance checks applied to archives the library writes.

use super::codec;
use super::directory::{self, SEntry};
use super::header::SHeader;
use std::collections::{BTreeMap, BTreeSet};

#[derive(Clone, Copy, Debug)]
pub struct Limits {
    pub max_tiles: u64,
    pub max_visits: u64,
    pub max_dir_bytes: usize,
    pub max_depth: u32,
}

impl Default for Limits {
    fn default() -> Self {
        Limits {
            max_tiles: 1 << 21,
            max_visits: 10_000,
            max_dir_bytes: 64 << 20,
            max_depth: 4,
        }
    }
}

#[derive(Clone, Debug)]
pub struct DirInfo {
    pub abs_off: u64,
    pub len: u64,
    pub depth: u32,
    pub entries: Vec<SEntry>,
    pub raw: Vec<u8>,
    pub consumed_all_input: bool,
    pub consumed_all_raw: bool,
}

#[derive(Clone, Debug)]
pub struct Archive {
    pub header: SHeader,
    pub dirs: Vec<DirInfo>,
    /// tile id -> (offset relative to tile data, length)
    pub tiles: BTreeMap<u64, (u64, u32)>,
    /// all tile entries in walk order
    pub tile_entries: Vec<SEntry>,
    pub metadata: serde_json::Value,
    pub metadata_raw: Vec<u8>,
    pub has_leaves: bool,
    pub max_depth: u32,
}

#[derive(Clone, Debug, PartialEq, Eq)]
pub struct Reject {
    pub tag: &'static str,
    pub msg: String,
}

fn rej<T>(tag: &'static str, msg: impl Into<String>) -> Result<T, Reject> {
    Err(Reject { tag, msg: msg.into() })
}

fn section<'a>(bytes: &'a [u8], off: u64, len: u64, what: &'static str) -> Result<&'a [u8], Reject> {
    let end = off.checked_add(len).ok_or(Reject { tag: "section-overflow", msg: format!("{what}: offset+length overflows") })?;
    if end > bytes.len() as u64 {
        return rej("section-outside-file", format!("{what}: [{off},{end}) outside file of {} bytes", bytes.len()));
    }
    Ok(&bytes[off as usize..end as usize])
}

pub fn read_dir(bytes: &[u8], abs_off: u64, len: u64, codec_id: u8, depth: u32, lim: &Limits) -> Result<DirInfo, Reject> {
    let sl = section(bytes, abs_off, len, "directory")?;
    let (raw, all_in) = codec::decompress(codec_id, sl, lim.max_dir_bytes).map_err(|e| Reject { tag: "dir-codec", msg: e })?;
    let (entries, used) = directory::decode(&raw).map_err(|e| Reject { tag: "dir-decode", msg: format!("{e:?}") })?;
    Ok(DirInfo {
        abs_off,
        len,
        depth,
        entries,
        consumed_all_raw: used == raw.len(),
        raw,
        consumed_all_input: all_in,
    })
}

/// Parse an archive the way a careful spec reader would. Structural rules enforced here are the
/// ones every reader needs (sections inside the file, directories decodable, ids ascending,
/// leaf pointers inside the leaf section, no cycles, depth <= max_depth, budgets).
pub fn parse(bytes: &[u8], lim: &Limits) -> Result<Archive, Reject> {
    let header = SHeader::decode(bytes).map_err(|e| Reject { tag: "header", msg: e })?;
    if header.internal == 0 {
        return rej("internal-compression-unknown", "internal compression 0");
    }
    section(bytes, header.root_off, header.root_len, "root directory")?;
    let meta_sl = section(bytes, header.meta_off, header.meta_len, "metadata")?;
    section(bytes, header.leaf_off, header.leaf_len, "leaf directories")?;
    section(bytes, header.data_off, header.data_len, "tile data")?;

    let (metadata, metadata_raw) = if header.meta_len == 0 {
        (serde_json::Value::Object(serde_json::Map::new()), Vec::new())
    } else {
        let (raw, _) = codec::decompress(header.internal, meta_sl, lim.max_dir_bytes).map_err(|e| Reject { tag: "meta-codec", msg: e })?;
        let v: serde_json::Value = serde_json::from_slice(&raw).map_err(|e| Reject { tag: "meta-json", msg: e.to_string() })?;
        (v, raw)
    };

    let mut ar = Archive {
        header: header.clone(),
        dirs: Vec::new(),
        tiles: BTreeMap::new(),
        tile_entries: Vec::new(),
        metadata,
        metadata_raw,
        has_leaves: false,
        max_depth: 0,
    };
    let mut visited: BTreeSet<(u64, u64)> = BTreeSet::new();
    let mut visits = 0u64;
    let mut ntiles = 0u64;
    walk(bytes, &header, header.root_off, header.root_len, 0, lim, &mut ar, &mut visited, &mut visits, &mut ntiles)?;
    Ok(ar)
}

#[allow(clippy::too_many_arguments)]
fn walk(
    bytes: &[u8],
    h: &SHeader,
    abs_off: u64,
    len: u64,
    depth: u32,
    lim: &Limits,
    ar: &mut Archive,
    visited: &mut BTreeSet<(u64, u64)>,
    visits: &mut u64,
    ntiles: &mut u64,
) -> Result<(), Reject> {
    if depth > lim.max_depth {
        return rej("depth", format!("directory nesting deeper than {}", lim.max_depth));
    }
    *visits += 1;
    if *visits > lim.max_visits {
        return rej("budget-visits", "too many directory visits");
    }
    if !visited.insert((abs_off, len)) {
        return rej("cycle", format!("directory at {abs_off}+{len} visited twice"));
    }
    let d = read_dir(bytes, abs_off, len, h.internal, depth, lim)?;
    directory::valid(&d.entries).map_err(|e| Reject { tag: "dir-invalid", msg: e })?;
    ar.max_depth = ar.max_depth.max(depth);
    let entries = d.entries.clone();
    ar.dirs.push(d);
    for e in &entries {
        if e.run == 0 {
            ar.has_leaves = true;
            let end = e.off.checked_add(u64::from(e.len)).ok_or(Reject { tag: "leaf-overflow", msg: "leaf offset+length overflows".into() })?;
            if end > h.leaf_len {
                return rej("leaf-outside-section", format!("leaf [{},{}) outside leaf section of {}", e.off, end, h.leaf_len));
            }
            walk(bytes, h, h.leaf_off + e.off, u64::from(e.len), depth + 1, lim, ar, visited, visits, ntiles)?;
        } else {
            *ntiles += u64::from(e.run);
            if *ntiles > lim.max_tiles {
                return rej("budget-tiles", "more addressed tiles than the budget");
            }
            let end = e.off.checked_add(u64::from(e.len)).ok_or(Reject { tag: "tile-overflow", msg: "tile offset+length overflows".into() })?;
            if end > h.data_len {
                return rej("tile-outside-section", format!("tile [{},{}) outside tile data of {}", e.off, end, h.data_len));
            }
            for k in 0..u64::from(e.run) {
                let id = e.id.checked_add(k).ok_or(Reject { tag: "id-overflow", msg: "id+run overflows".into() })?;
                if ar.tiles.insert(id, (e.off, e.len)).is_some() {
                    return rej("duplicate-id", format!("tile id {id} addressed twice"));
                }
            }
            ar.tile_entries.push(*e);
        }
    }
    Ok(())
}

/// Declared work of an arbitrary byte string (lenient; never fails): how many tiles / directory
/// visits / decompressed directory bytes a reader following the pointers would be asked for.
/// Used for C08's "outside the claim" rule. Saturating; stops counting beyond the caps.
#[derive(Clone, Copy, Debug, Default)]
pub struct Work {
    pub tiles: u64,
    pub visits: u64,
    pub dir_bytes: u64,
    pub over: bool,
}

pub fn declared_work(bytes: &[u8], lim: &Limits) -> Work {
    let mut w = Work::default();
    let Ok(h) = SHeader::decode(bytes) else { return w };
    if h.internal == 0 || h.internal > 4 {
        return w;
    }
    // Depth-first walk that over-approximates what a streaming reader does: every pointer is followed each
    // time it is met (no global de-duplication: a reader re-expands a leaf that is referenced twice), a
    // directory already on the current path is not entered again (a reader stops there), nesting is followed as
    // deep as the visit budget allows (callers run on threads with a large stack), errors do not stop the walk
    // (a reader would stop, i.e. do less).
    fn go(bytes: &[u8], h: &SHeader, off: u64, len: u64, lim: &Limits, w: &mut Work, path: &mut Vec<(u64, u64)>) {
        if w.over || path.contains(&(off, len)) {
            return;
        }
        w.visits += 1;
        if w.visits > lim.max_visits {
            w.over = true;
            return;
        }
        // a reader bounds the section with take(len): an overflowing end simply means "to the end of the file"
        let end = off.saturating_add(len);
        let lo = (off.min(bytes.len() as u64)) as usize;
        let hi = (end.min(bytes.len() as u64)) as usize;
        let (raw, over) = codec::decompress_lenient(h.internal, &bytes[lo..hi], lim.max_dir_bytes);
        w.dir_bytes += raw.len() as u64;
        if over || w.dir_bytes > lim.max_dir_bytes as u64 {
            w.over = true;
            return;
        }
        // lenient decode: wrapping arithmetic, whatever columns are there count
        let mut pos = 0usize;
        let Ok(n) = super::varint::get(&raw, &mut pos) else { return };
        if n > raw.len() as u64 {
            return; // the id column cannot be complete: a reader fails before expanding anything
        }
        let n = n as usize;
        let col = |pos: &mut usize| -> Vec<u64> {
            let mut v = Vec::with_capacity(n);
            for _ in 0..n {
                match super::varint::get(&raw, pos) {
                    Ok(x) => v.push(x),
                    Err(_) => break,
                }
            }
            v
        };
        let ids = col(&mut pos);
        if ids.len() < n {
            return;
        }
        let runs = col(&mut pos);
        for r in &runs {
            w.tiles = w.tiles.saturating_add(*r & 0xffff_ffff);
        }
        if w.tiles > lim.max_tiles {
            w.over = true;
            return;
        }
        if runs.len() < n {
            return;
        }
        let lens = col(&mut pos);
        if lens.len() < n {
            return;
        }
        let mut offs: Vec<u64> = Vec::with_capacity(n);
        for i in 0..n {
            let Ok(v) = super::varint::get(&raw, &mut pos) else { break };
            let o = if v == 0 && i > 0 { offs[i - 1].wrapping_add(lens[i - 1] & 0xffff_ffff) } else { v.wrapping_sub(1) };
            offs.push(o);
        }
        path.push((off, len));
        for i in 0..offs.len() {
            if runs[i] & 0xffff_ffff == 0 {
                go(bytes, h, h.leaf_off.wrapping_add(offs[i]), lens[i] & 0xffff_ffff, lim, w, path);
                if w.over {
                    break;
                }
            }
        }
        path.pop();
    }
    let mut path = Vec::new();
    go(bytes, &h, h.root_off, h.root_len, lim, &mut w, &mut path);
    w
}

/// The specification's lookup procedure (binary search, at most 4 directory levels).
pub fn lookup(bytes: &[u8], h: &SHeader, id: u64, lim: &Limits) -> Result<Option<(u64, u32)>, Reject> {
    let mut off = h.root_off;
    let mut len = h.root_len;
    for depth in 0..4 {
        let d = read_dir(bytes, off, len, h.internal, depth, lim)?;
        match find_tile(&d.entries, id) {
            None => return Ok(None),
            Some(e) => {
                if e.run > 0 {
                    return Ok(Some((h.data_off + e.off, e.len)));
                }
                off = h.leaf_off + e.off;
                len = u64::from(e.len);
            }
        }
    }
    Ok(None)
}

pub fn find_tile(entries: &[SEntry], id: u64) -> Option<SEntry> {
    let mut m: i64 = 0;
    let mut n: i64 = entries.len() as i64 - 1;
    while m <= n {
        let k = (n + m) >> 1;
        let e = entries[k as usize];
        if id > e.id {
            m = k + 1;
        } else if id < e.id {
            n = k - 1;
        } else {
            return Some(e);
        }
    }
    if n >= 0 {
        let e = entries[n as usize];
        if e.run == 0 {
            return Some(e);
        }
        if id - e.id < u64::from(e.run) {
            return Some(e);
        }
    }
    None
}

/// Strict conformance checks for archives produced by a *writer* (C02). Returns (tag, message)
/// for every broken rule.
pub fn strict_checks(bytes: &[u8], ar: &Archive) -> Vec<(&'static str, String)> {
    let mut bad: Vec<(&'static str, String)> = Vec::new();
    let h = &ar.header;
    // sections pairwise disjoint and not overlapping the header
    let secs = [
        ("header", 0u64, 127u64),
        ("root", h.root_off, h.root_len),
        ("metadata", h.meta_off, h.meta_len),
        ("leaves", h.leaf_off, h.leaf_len),
        ("tiledata", h.data_off, h.data_len),
    ];
    for i in 0..secs.len() {
        for j in i + 1..secs.len() {
            let (na, oa, la) = secs[i];
            let (nb, ob, lb) = secs[j];
            if la == 0 || lb == 0 {
                continue;
            }
            if oa < ob + lb && ob < oa + la {
                bad.push(("sections-overlap", format!("{na} [{oa},+{la}) overlaps {nb} [{ob},+{lb})")));
            }
        }
    }
    if h.root_off.saturating_add(h.root_len) > 16384 {
        bad.push(("root-beyond-16k", format!("root ends at {}", h.root_off + h.root_len)));
    }
    if h.root_off < 127 {
        bad.push(("root-inside-header", format!("root offset {}", h.root_off)));
    }
    if !ar.metadata.is_object() {
        bad.push(("metadata-not-object", format!("metadata is {}", ar.metadata)));
    }
    for d in &ar.dirs {
        if !d.consumed_all_raw {
            bad.push(("dir-trailing-bytes", format!("directory at {} has undecoded trailing bytes", d.abs_off)));
        }
        if !d.consumed_all_input {
            bad.push(("dir-trailing-input", format!("directory at {}: codec stream shorter than declared length", d.abs_off)));
        }
        let re = directory::encode(&d.entries, true);
        if re != d.raw {
            bad.push(("dir-not-canonical", format!("directory at {} does not re-encode to the same bytes", d.abs_off)));
        }
    }
    // global ordering across the leaf walk
    let mut prev_end: Option<u64> = None;
    for e in &ar.tile_entries {
        if let Some(pe) = prev_end {
            if e.id < pe {
                bad.push(("entries-not-ascending", format!("entry id {} after run ending {}", e.id, pe)));
                break;
            }
        }
        prev_end = Some(e.id + u64::from(e.run));
    }
    // counters
    let addressed: u64 = ar.tile_entries.iter().map(|e| u64::from(e.run)).sum();
    let n_entries = ar.tile_entries.len() as u64;
    let contents: BTreeSet<u64> = ar.tile_entries.iter().map(|e| e.off).collect();
    if h.n_addressed != addressed {
        bad.push(("counter-addressed", format!("header {} vs recomputed {}", h.n_addressed, addressed)));
    }
    if h.n_entries != n_entries {
        bad.push(("counter-entries", format!("header {} vs recomputed {}", h.n_entries, n_entries)));
    }
    if h.n_contents != contents.len() as u64 {
        bad.push(("counter-contents", format!("header {} vs recomputed {}", h.n_contents, contents.len())));
    }
    if h.clustered > 1 {
        bad.push(("clustered-byte", format!("clustered byte {}", h.clustered)));
    }
    if h.clustered == 1 {
        // walking entries in id order: each offset is the running end (new content) or smaller
        let mut end = 0u64;
        for e in &ar.tile_entries {
            if e.off == end {
                end += u64::from(e.len);
            } else if e.off > end {
                bad.push(("clustered-but-not-ordered", format!("entry id {} offset {} beyond running end {}", e.id, e.off, end)));
                break;
            }
        }
    }
    let _ = bytes;
    bad
}
