//! LEB128 unsigned varints (spec §4.1: "variable-width integer").

#[derive(Debug, Clone, PartialEq, Eq)]
pub enum VarErr {
    Unterminated,
    TooBig,
}

pub fn put(out: &mut Vec<u8>, mut v: u64) {
    loop {
        let b = (v & 0x7f) as u8;
        v >>= 7;
        if v == 0 {
            out.push(b);
            return;
        }
        out.push(b | 0x80);
    }
}

pub fn len(v: u64) -> usize {
    let bits = 64 - v.leading_zeros() as usize;
    if bits == 0 {
        1
    } else {
        (bits + 6) / 7
    }
}

/// Decode one varint at `*pos`; advances `*pos`.
pub fn get(buf: &[u8], pos: &mut usize) -> Result<u64, VarErr> {
    let mut v: u64 = 0;
    let mut shift = 0u32;
    loop {
        let Some(&b) = buf.get(*pos) else {
            return Err(VarErr::Unterminated);
        };
        *pos += 1;
        let low = u64::from(b & 0x7f);
        if shift == 63 && low > 1 {
            return Err(VarErr::TooBig);
        }
        if shift > 63 {
            return Err(VarErr::TooBig);
        }
        v |= low << shift;
        if b & 0x80 == 0 {
            return Ok(v);
        }
        shift += 7;
    }
}
