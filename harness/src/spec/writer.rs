//! Foreign archive writer (layouts) — see DESIGN §3.1.
