//! Foreign archive writer: builds spec-valid PMTiles v3 archives from a *layout description* —
//! section order and gaps, directory trees of depth 1-3, run lengths, shared / back-referencing /
//! unordered offsets, undeduplicated duplicates, non-eliding offset spelling, empty metadata,
//! foreign codec parameters. Independent of pmtiles2.

use super::codec::{self, Params};
use super::directory::{self, SEntry};
use super::header::SHeader;
use crate::model::content::ContentSpec;
use crate::model::json::J;
use crate::model::pick;
use serde::{Deserialize, Serialize};
use std::collections::BTreeMap;

#[derive(Clone, Copy, Debug, PartialEq, Eq, Hash, Serialize, Deserialize)]
pub struct TEnt {
    /// distance from the end of the previous run to this id
    pub gap: u32,
    pub run: u32,
    pub sel: u16,
}

#[derive(Clone, Debug, PartialEq, Eq, Hash, Serialize, Deserialize)]
pub struct Layout {
    pub internal: u8,
    pub params: Params,
    /// permutation index (0..24) of [root, metadata, leaves, tile data]
    pub order: u8,
    /// gap before each of the four sections (in file order) and after the last
    pub gaps: [u16; 5],
    pub depth: u8,
    pub fan1: u16,
    pub fan2: u16,
    pub elide: bool,
    /// 0: leaves stored in walk order; otherwise a seeded shuffle
    pub leaf_shuffle: u32,
    pub leaf_gap: u8,
    pub first_id: u64,
    pub entries: Vec<TEnt>,
    pub pool: Vec<ContentSpec>,
    /// 0 dedup, first-use order (clustered) | 1 dedup, reverse first-use order | 2 no dedup, every entry its own copy
    /// 3 dedup, pool order with junk between contents
    pub data_mode: u8,
    pub meta: Option<J>,
    pub tile_type: u8,
    pub tile_comp: u8,
    pub zooms: [u8; 3],
    pub coords: [i32; 6],
    /// bit k set: header counter k (addressed tiles, tile entries, tile contents) is written as 0, which the
    /// specification defines as "unknown" - a valid archive from a writer that does not keep statistics
    #[serde(default)]
    pub zero_counters: u8,
    /// a content that is a proper prefix of another stored content is addressed *inside* that content (same
    /// offset, shorter length) instead of getting bytes of its own
    #[serde(default)]
    pub overlap_prefixes: bool,
    /// 0: directories hold either tile entries or leaf pointers; otherwise a seed deciding which leaves are
    /// dissolved into their parent directory, so that one directory mixes tile entries and leaf pointers (the
    /// specification's lookup treats every entry on its own, and writers that keep low zooms in the root do this)
    #[serde(default)]
    pub inline: u32,
    /// the last entry is moved so that its run ends on the last tile id of the domain (z31, end of the curve)
    #[serde(default)]
    pub to_end: bool,
}

/// Hostile edits applied while assembling (C08): varint values of chosen directories, header
/// fields, and byte-level damage of the finished file.
#[derive(Clone, Debug, Default, PartialEq, Eq, Hash, Serialize, Deserialize)]
pub struct Mutations {
    /// (directory index in build order, value position selector, replacement)
    pub dir: Vec<(u16, u16, MutVal)>,
    /// (u64 header field 0..=10, replacement)
    pub header: Vec<(u8, MutVal)>,
    pub bytes: Vec<ByteMut>,
}

#[derive(Clone, Copy, Debug, PartialEq, Eq, Hash, Serialize, Deserialize)]
pub enum MutVal {
    Abs(u64),
    /// original value plus a small delta (wrapping)
    Rel(i8),
    /// number of bytes remaining in the file/section plus a small delta
    Remaining(i8),
}

#[derive(Clone, Copy, Debug, PartialEq, Eq, Hash, Serialize, Deserialize)]
pub enum ByteMut {
    /// keep only the first x/65536 of the file
    Truncate(u16),
    /// copy `len` bytes from position selector `from` over position selector `to`
    Splice(u16, u16, u16),
    /// set the byte at the position selector
    Set(u16, u8),
    /// swap the offsets of two sections in the header (0 root, 1 meta, 2 leaves, 3 data)
    SwapSections(u8, u8),
}

impl MutVal {
    pub fn apply(self, orig: u64, remaining: u64) -> u64 {
        match self {
            MutVal::Abs(v) => v,
            MutVal::Rel(d) => orig.wrapping_add(d as i64 as u64),
            MutVal::Remaining(d) => remaining.wrapping_add(d as i64 as u64),
        }
    }
}

#[derive(Clone, Debug, Default)]
pub struct Facts {
    pub depth: u8,
    pub has_run: bool,
    pub shared_offset: bool,
    pub non_monotonic: bool,
    pub permuted: bool,
    pub gapped: bool,
    pub non_eliding: bool,
    pub data_not_last: bool,
    pub prefix_overlap: bool,
    pub gap_after_dir: bool,
    pub empty_meta: bool,
    /// some directory holds both tile entries and leaf pointers
    pub mixed: bool,
}

#[derive(Clone, Debug)]
pub struct OneDir {
    pub entries: Vec<SEntry>,
    pub blob: Vec<u8>,
    /// absolute offset in the file (filled in after layout)
    pub abs_off: u64,
}

#[derive(Clone, Debug)]
pub struct Built {
    pub bytes: Vec<u8>,
    pub header: SHeader,
    /// id -> (absolute offset, length)
    pub expected: BTreeMap<u64, (u64, u32)>,
    pub tile_entries: Vec<SEntry>,
    pub dirs: Vec<OneDir>,
    pub facts: Facts,
    /// ids worth steering ranges onto: leaf first ids, run starts / ends
    pub steer: Vec<u64>,
    pub metadata: serde_json::Value,
}

const PERMS: [[u8; 4]; 24] = [
    [0, 1, 2, 3], [0, 1, 3, 2], [0, 2, 1, 3], [0, 2, 3, 1], [0, 3, 1, 2], [0, 3, 2, 1],
    [1, 0, 2, 3], [1, 0, 3, 2], [1, 2, 0, 3], [1, 2, 3, 0], [1, 3, 0, 2], [1, 3, 2, 0],
    [2, 0, 1, 3], [2, 0, 3, 1], [2, 1, 0, 3], [2, 1, 3, 0], [2, 3, 0, 1], [2, 3, 1, 0],
    [3, 0, 1, 2], [3, 0, 2, 1], [3, 1, 0, 2], [3, 1, 2, 0], [3, 2, 0, 1], [3, 2, 1, 0],
];

fn junk(n: usize, salt: u64) -> Vec<u8> {
    let mut r = crate::engine::Sm(salt ^ 0x6a75_6e6b);
    let mut v = vec![0u8; n];
    r.fill(&mut v);
    // make junk look unlike a header/directory start
    for b in &mut v {
        *b |= 0x80;
    }
    v
}

struct Tree {
    root: Vec<SEntry>,
    /// leaf blobs in walk order: (entries, compressed blob)
    leaves: Vec<(Vec<SEntry>, Vec<u8>)>,
    /// for each leaf (walk order), its (offset, length) in the leaf section
    place: Vec<(u64, u32)>,
    leaf_section: Vec<u8>,
    depth: u8,
}

thread_local! {
    static MUT_CTX: std::cell::RefCell<(Vec<(u16, u16, MutVal)>, u16, u32)> = const { std::cell::RefCell::new((Vec::new(), 0, 0)) };
}

fn enc(l: &Layout, es: &[SEntry]) -> Vec<u8> {
    let mut vals = directory::values(es, l.elide);
    MUT_CTX.with(|c| {
        let mut c = c.borrow_mut();
        let idx = c.1;
        c.1 = c.1.wrapping_add(1);
        if c.0.is_empty() {
            return;
        }
        let raw_len = directory::from_values(&vals).len() as u64;
        let muts: Vec<(u16, u16, MutVal)> = c.0.iter().filter(|m| m.0 == idx).copied().collect();
        for (_, pos, v) in muts {
            let p = pick(pos, vals.len());
            vals[p] = v.apply(vals[p], raw_len);
            c.2 += 1;
        }
    });
    codec::compress(l.internal, &directory::from_values(&vals), l.params)
}

/// Build the directory tree for `tile_entries` with the requested depth / fan-out.
fn tree(l: &Layout, tile_entries: &[SEntry], depth: u8, fan1: usize, fan2: usize) -> Tree {
    if depth <= 1 || tile_entries.is_empty() {
        return Tree { root: tile_entries.to_vec(), leaves: vec![], place: vec![], leaf_section: vec![], depth: 1 };
    }
    // level-2 (bottom) leaves hold tile entries
    let bottom: Vec<Vec<SEntry>> = tile_entries.chunks(fan1.max(1)).map(<[SEntry]>::to_vec).collect();
    let n_bottom = bottom.len();
    // which leaves are dissolved into their parent (mixed directories)
    let dissolve = |k: u64| l.inline != 0 && crate::engine::Sm(u64::from(l.inline) ^ k.wrapping_mul(0x9e37_79b9_7f4a_7c15)).below(3) == 0;
    let inlined: Vec<bool> = (0..n_bottom).map(|i| dissolve(i as u64)).collect();
    // Leaves are placed in the leaf section; pointer entries need final offsets, so blobs for the
    // bottom level are laid out first, then (depth 3) the middle level that points at them.
    let mut blobs: Vec<Option<(Vec<SEntry>, Vec<u8>)>> = bottom.iter().enumerate().map(|(i, es)| if inlined[i] { None } else { Some((es.clone(), enc(l, es))) }).collect();
    // storage order of the bottom leaves
    let mut order: Vec<usize> = (0..n_bottom).collect();
    if l.leaf_shuffle != 0 {
        let mut r = crate::engine::Sm(u64::from(l.leaf_shuffle));
        for i in (1..order.len()).rev() {
            let j = r.below(i as u64 + 1) as usize;
            order.swap(i, j);
        }
    }
    let mut section: Vec<u8> = Vec::new();
    let mut place: Vec<(u64, u32)> = vec![(0, 0); n_bottom];
    for (k, &i) in order.iter().enumerate() {
        let Some((_, blob)) = &blobs[i] else { continue };
        if l.leaf_gap > 0 {
            section.extend_from_slice(&junk(usize::from(l.leaf_gap), k as u64));
        }
        place[i] = (section.len() as u64, blob.len() as u32);
        section.extend_from_slice(blob);
    }
    // what the parent directory holds for each bottom chunk: one pointer, or the chunk's tile entries themselves
    let items: Vec<Vec<SEntry>> = (0..n_bottom).map(|i| if inlined[i] { bottom[i].clone() } else { vec![SEntry { id: bottom[i][0].id, off: place[i].0, len: place[i].1, run: 0 }] }).collect();
    if depth == 2 {
        let mut leaves = Vec::new();
        let mut pl = Vec::new();
        for i in 0..n_bottom {
            if let Some(b) = blobs[i].take() {
                leaves.push(b);
                pl.push(place[i]);
            }
        }
        return Tree { root: items.concat(), leaves, place: pl, leaf_section: section, depth: 2 };
    }
    // depth 3: middle leaves hold pointers to bottom leaves (and the entries of dissolved bottom leaves)
    let mut root = Vec::new();
    let mut all: Vec<(Vec<SEntry>, Vec<u8>)> = Vec::new();
    let mut all_place: Vec<(u64, u32)> = Vec::new();
    // walk order: middle leaf, then its bottom leaves
    let mut bi = 0usize;
    for (k, group) in items.chunks(fan2.max(1)).enumerate() {
        let m: Vec<SEntry> = group.concat();
        if dissolve(1_000_000 + k as u64) {
            root.extend(m.iter().copied());
        } else {
            let blob = enc(l, &m);
            if l.leaf_gap > 0 {
                section.extend_from_slice(&junk(usize::from(l.leaf_gap), 1000 + k as u64));
            }
            let off = section.len() as u64;
            section.extend_from_slice(&blob);
            root.push(SEntry { id: m[0].id, off, len: blob.len() as u32, run: 0 });
            all.push((m.clone(), blob.clone()));
            all_place.push((off, blob.len() as u32));
        }
        for _ in 0..group.len() {
            if let Some(b) = blobs[bi].take() {
                all.push(b);
                all_place.push(place[bi]);
            }
            bi += 1;
        }
    }
    Tree { root, leaves: all, place: all_place, leaf_section: section, depth: 3 }
}

pub fn build(l: &Layout) -> Built {
    build_with(l, &Mutations::default()).0
}

/// Build with hostile edits; returns the archive and the number of edits that really changed something.
pub fn build_with(l: &Layout, m: &Mutations) -> (Built, u32) {
    MUT_CTX.with(|c| *c.borrow_mut() = (m.dir.clone(), 0, 0));
    let mut b = build_plain(l);
    let mut applied = MUT_CTX.with(|c| {
        let mut c = c.borrow_mut();
        let n = c.2;
        *c = (Vec::new(), 0, 0);
        n
    });
    // header fields
    let mut h = b.header.clone();
    let flen = b.bytes.len() as u64;
    for (f, v) in &m.header {
        let slot: &mut u64 = match f % 11 {
            0 => &mut h.root_off,
            1 => &mut h.root_len,
            2 => &mut h.meta_off,
            3 => &mut h.meta_len,
            4 => &mut h.leaf_off,
            5 => &mut h.leaf_len,
            6 => &mut h.data_off,
            7 => &mut h.data_len,
            8 => &mut h.n_addressed,
            9 => &mut h.n_entries,
            _ => &mut h.n_contents,
        };
        let old = *slot;
        *slot = v.apply(old, flen.saturating_sub(old.min(flen)));
        if *slot != old {
            applied += 1;
        }
    }
    for bm in &m.bytes {
        if let ByteMut::SwapSections(a, c) = bm {
            let mut offs = [h.root_off, h.meta_off, h.leaf_off, h.data_off];
            offs.swap(usize::from(a % 4), usize::from(c % 4));
            if [h.root_off, h.meta_off, h.leaf_off, h.data_off] != offs {
                applied += 1;
            }
            h.root_off = offs[0];
            h.meta_off = offs[1];
            h.leaf_off = offs[2];
            h.data_off = offs[3];
        }
    }
    b.bytes[..127].copy_from_slice(&h.encode());
    b.header = h;
    for bm in &m.bytes {
        let n = b.bytes.len();
        match *bm {
            ByteMut::Truncate(f) => {
                b.bytes.truncate(pick(f, n + 1));
                applied += 1;
            }
            ByteMut::Splice(from, to, len) => {
                let (f, t) = (pick(from, n), pick(to, n));
                let l = usize::from(len).min(n - f).min(n - t);
                let chunk = b.bytes[f..f + l].to_vec();
                if b.bytes[t..t + l] != chunk[..] {
                    applied += 1;
                }
                b.bytes[t..t + l].copy_from_slice(&chunk);
            }
            ByteMut::Set(p, v) => {
                if n > 0 {
                    let p = pick(p, n);
                    if b.bytes[p] != v {
                        applied += 1;
                    }
                    b.bytes[p] = v;
                }
            }
            ByteMut::SwapSections(..) => {}
        }
    }
    (b, applied)
}

fn build_plain(l: &Layout) -> Built {
    // 1. tile entries and data
    let contents: Vec<Vec<u8>> = l.pool.iter().map(ContentSpec::bytes).collect();
    let mut ids: Vec<(u64, u32, usize)> = Vec::new(); // id, run, pool index
    let mut next = l.first_id;
    let end = super::hilbert::domain_end();
    for e in &l.entries {
        let id = next.saturating_add(u64::from(e.gap));
        let run = e.run.max(1);
        if id >= end || id + u64::from(run) > end {
            break;
        }
        ids.push((id, run, pick(e.sel, contents.len())));
        next = id + u64::from(run);
    }
    if l.to_end {
        if let Some((id, run, ci)) = ids.pop() {
            let prev_end = ids.last().map_or(0, |x| x.0 + u64::from(x.1));
            let moved = end - u64::from(run);
            ids.push((if moved >= prev_end { moved } else { id }, run, ci));
        }
    }
    let mut data: Vec<u8> = Vec::new();
    let mut tile_entries: Vec<SEntry> = Vec::with_capacity(ids.len());
    match l.data_mode % 4 {
        2 => {
            for (id, run, ci) in &ids {
                let off = data.len() as u64;
                data.extend_from_slice(&contents[*ci]);
                tile_entries.push(SEntry { id: *id, off, len: contents[*ci].len() as u32, run: *run });
            }
        }
        m => {
            let mut first_use: Vec<usize> = Vec::new();
            for (_, _, ci) in &ids {
                if !first_use.contains(ci) {
                    first_use.push(*ci);
                }
            }
            let order: Vec<usize> = match m {
                0 => first_use.clone(),
                1 => first_use.iter().rev().copied().collect(),
                _ => {
                    let mut o = first_use.clone();
                    o.sort_unstable();
                    o
                }
            };
            let mut at: BTreeMap<usize, u64> = BTreeMap::new();
            for (k, ci) in order.iter().enumerate() {
                if m == 3 {
                    data.extend_from_slice(&junk(3, k as u64));
                }
                at.insert(*ci, data.len() as u64);
                data.extend_from_slice(&contents[*ci]);
            }
            if l.overlap_prefixes {
                let placed: Vec<usize> = at.keys().copied().collect();
                for ci in &placed {
                    if let Some(cj) = placed.iter().find(|cj| contents[**cj].len() > contents[*ci].len() && contents[**cj].starts_with(&contents[*ci])) {
                        let o = at[cj];
                        at.insert(*ci, o);
                    }
                }
            }
            for (id, run, ci) in &ids {
                tile_entries.push(SEntry { id: *id, off: at[ci], len: contents[*ci].len() as u32, run: *run });
            }
        }
    }

    // 2. metadata
    let (meta_blob, metadata) = match &l.meta {
        None => (Vec::new(), serde_json::Value::Object(serde_json::Map::new())),
        Some(j) => {
            let v = j.to_value();
            (codec::compress(l.internal, &serde_json::to_vec(&v).unwrap_or_default(), l.params), v)
        }
    };

    // 3. directories; make sure the root fits in the first 16 KiB whatever precedes it
    let mut depth = l.depth.clamp(1, 3);
    let mut fan1 = usize::from(l.fan1.max(1));
    let fan2 = usize::from(l.fan2.max(1));
    let mut t = tree(l, &tile_entries, depth, fan1, fan2);
    let mut root_blob = enc(l, &t.root);
    let mut guard = 0;
    let mut plain;
    let mut l = l;
    while root_blob.len() > 12_000 && guard < 40 {
        if l.inline != 0 && guard >= 3 {
            // dissolved leaves make the root grow with the fan-out: keep the tree pure instead
            plain = l.clone();
            plain.inline = 0;
            l = &plain;
        }
        if depth < 2 {
            depth = 2;
            fan1 = fan1.max(32);
        } else if depth < 3 && guard > 2 {
            depth = 3;
        } else {
            fan1 *= 2;
        }
        t = tree(l, &tile_entries, depth, fan1, fan2);
        root_blob = enc(l, &t.root);
        guard += 1;
    }

    // 4. section order
    let mut perm = PERMS[usize::from(l.order) % 24];
    let sizes = [root_blob.len() as u64, meta_blob.len() as u64, t.leaf_section.len() as u64, data.len() as u64];
    let root_end = |perm: &[u8; 4]| -> u64 {
        let mut pos = 127u64;
        for (k, s) in perm.iter().enumerate() {
            pos += u64::from(l.gaps[k]);
            if *s == 0 {
                return pos + sizes[0];
            }
            pos += sizes[*s as usize];
        }
        pos
    };
    if root_end(&perm) > 16_384 {
        // move root to the front
        let mut p2 = vec![0u8];
        p2.extend(perm.iter().filter(|s| **s != 0));
        perm = [p2[0], p2[1], p2[2], p2[3]];
    }
    let mut bytes: Vec<u8> = vec![0u8; 127];
    let mut offs = [0u64; 4];
    for (k, s) in perm.iter().enumerate() {
        let mut g = usize::from(l.gaps[k]);
        if k == 0 && perm[0] == 0 && 127 + g as u64 + sizes[0] > 16_384 {
            g = 0;
        }
        bytes.extend_from_slice(&junk(g, 77 + k as u64));
        offs[*s as usize] = bytes.len() as u64;
        match s {
            0 => bytes.extend_from_slice(&root_blob),
            1 => bytes.extend_from_slice(&meta_blob),
            2 => bytes.extend_from_slice(&t.leaf_section),
            _ => bytes.extend_from_slice(&data),
        }
    }
    bytes.extend_from_slice(&junk(usize::from(l.gaps[4]), 99));

    // 5. header
    let mut distinct: Vec<u64> = tile_entries.iter().map(|e| e.off).collect();
    distinct.sort_unstable();
    distinct.dedup();
    let header = SHeader {
        root_off: offs[0],
        root_len: sizes[0],
        meta_off: offs[1],
        meta_len: sizes[1],
        leaf_off: offs[2],
        leaf_len: sizes[2],
        data_off: offs[3],
        data_len: sizes[3],
        n_addressed: if l.zero_counters & 1 == 1 { 0 } else { tile_entries.iter().map(|e| u64::from(e.run)).sum() },
        n_entries: if l.zero_counters & 2 == 2 { 0 } else { tile_entries.len() as u64 },
        n_contents: if l.zero_counters & 4 == 4 { 0 } else { distinct.len() as u64 },
        clustered: u8::from(l.data_mode % 4 == 0),
        internal: l.internal,
        tile_comp: l.tile_comp,
        tile_type: l.tile_type,
        min_zoom: l.zooms[0],
        max_zoom: l.zooms[1],
        min_lon: l.coords[0],
        min_lat: l.coords[1],
        max_lon: l.coords[2],
        max_lat: l.coords[3],
        center_zoom: l.zooms[2],
        center_lon: l.coords[4],
        center_lat: l.coords[5],
    };
    bytes[..127].copy_from_slice(&header.encode());

    // expectations
    let mut expected = BTreeMap::new();
    let mut steer: Vec<u64> = Vec::new();
    for e in &tile_entries {
        for k in 0..u64::from(e.run) {
            expected.insert(e.id + k, (header.data_off + e.off, e.len));
        }
        steer.push(e.id);
        steer.push(e.id + u64::from(e.run) - 1);
    }
    let mut dirs = vec![OneDir { entries: t.root.clone(), blob: root_blob, abs_off: header.root_off }];
    for (i, (es, blob)) in t.leaves.iter().enumerate() {
        steer.push(es[0].id);
        dirs.push(OneDir { entries: es.clone(), blob: blob.clone(), abs_off: header.leaf_off + t.place[i].0 });
    }
    steer.sort_unstable();
    steer.dedup();
    let mut offs_seen: Vec<u64> = Vec::new();
    let mut non_monotonic = false;
    let mut shared = false;
    for e in &tile_entries {
        if offs_seen.contains(&e.off) {
            shared = true;
        }
        if let Some(last) = offs_seen.last() {
            if e.off < *last {
                non_monotonic = true;
            }
        }
        offs_seen.push(e.off);
    }
    let file_order_is_default = perm == [0, 1, 2, 3];
    let facts = Facts {
        depth: t.depth,
        has_run: tile_entries.iter().any(|e| e.run > 1),
        shared_offset: shared,
        non_monotonic,
        permuted: !file_order_is_default,
        gapped: l.gaps.iter().any(|g| *g > 0) || (l.leaf_gap > 0 && t.depth > 1),
        non_eliding: !l.elide && tile_entries.len() >= 2,
        data_not_last: perm[3] != 3,
        prefix_overlap: {
            let mut seen: std::collections::BTreeMap<u64, u32> = std::collections::BTreeMap::new();
            tile_entries.iter().any(|e| seen.insert(e.off, e.len).map_or(false, |l| l != e.len))
        },
        gap_after_dir: {
            // a gap follows the root or the leaf section
            let pos_root = perm.iter().position(|s| *s == 0).unwrap_or(0);
            let pos_leaf = perm.iter().position(|s| *s == 2).unwrap_or(0);
            l.gaps[pos_root + 1] > 0 || (t.depth > 1 && l.gaps[pos_leaf + 1] > 0)
        },
        empty_meta: l.meta.is_none(),
        mixed: dirs.iter().any(|d| d.entries.iter().any(|e| e.run == 0) && d.entries.iter().any(|e| e.run > 0)),
    };
    Built { bytes, header, expected, tile_entries, dirs, facts, steer, metadata }
}
