#!/bin/bash
# runs every quick check once with the given seed; prints one line per check
cd "$(dirname "$0")/.."
seed=${1:-1}
for i in 01 02 03 04 05 06 07 08 09 10 11 12 13 14 15 16 17 18 19 20; do
  s=$(date +%s)
  out=$(VERIF_SEED=$seed ./check C$i quick 2>&1); rc=$?
  e=$(( $(date +%s) - s ))
  echo "seed=$seed C$i rc=$rc ${e}s $(echo "$out" | grep -E '^C[0-9]+ quick' | tail -1) $(echo "$out" | grep -E '^VIOLATION|INCONCLUSIVE' | head -3 | tr '\n' ' ')"
done
