#!/usr/bin/env python3
"""Confirm a seeded change delivered by a sub-agent and file it under /verif/seeded/<id>/.

  confirm_seeded.py <OUT dir> <a|b> <PROP>      e.g. confirm_seeded.py /tmp/seed_C04/OUT a C04

In a fresh scratch worktree of /repo:
  1. the patch applies, builds with default features and with --features async,
  2. the repository's own suite passes with the change,
  3. the demonstration test FAILS with the change and PASSES without it.
Only then the change is copied to /verif/seeded/<PROP><letter>/ (patch.diff, demo.rs, meta.json).
"""
import json, os, shutil, subprocess, sys, tempfile, time

def sh(cmd, env=None):
    return subprocess.run(cmd, shell=True, stdout=subprocess.PIPE, stderr=subprocess.STDOUT, text=True, env=env)

def main():
    out, letter, prop = sys.argv[1], sys.argv[2], sys.argv[3]
    patch = os.path.join(out, f"{letter}.patch.diff")
    demo = os.path.join(out, f"{letter}_demo.rs")
    meta = json.load(open(os.path.join(out, f"{letter}_meta.json")))
    wt = tempfile.mkdtemp(prefix="verif-confirm-", dir="/tmp"); os.rmdir(wt)
    env = dict(os.environ, CARGO_NET_OFFLINE="true", CARGO_TARGET_DIR=os.environ.get("CONFIRM_TARGET", "/tmp/verif-mut-target/repo"))
    log = {}
    ok = False
    try:
        assert sh(f"git -C /repo worktree add -q --detach {wt} HEAD").returncode == 0
        r = sh(f"git -C {wt} apply --whitespace=nowarn {patch}")
        log["applies"] = r.returncode == 0
        if not log["applies"]:
            print(r.stdout); return
        r1 = sh(f"cd {wt} && cargo build --offline 2>&1 | tail -3", env)
        r2 = sh(f"cd {wt} && cargo build --offline --features async 2>&1 | tail -3", env)
        log["builds"] = "error" not in r1.stdout and "error" not in r2.stdout
        r = sh(f"cd {wt} && cargo test --workspace --no-fail-fast --offline 2>&1 | grep -E '^test result|FAILED|^error'", env)
        log["baseline_with_change"] = r.stdout.strip().splitlines()
        base_ok = r.stdout.count("test result: ok") >= 2 and "FAILED" not in r.stdout and "51 passed" in r.stdout
        log["baseline_pass"] = base_ok
        os.makedirs(f"{wt}/tests", exist_ok=True)
        shutil.copy(demo, f"{wt}/tests/seeded_demo.rs")
        r = sh(f"cd {wt} && timeout 1500 cargo test --offline --features async --test seeded_demo 2>&1 | grep -E '^test result|^test .* (FAILED|ok)|panicked|overflow|^error' | head -12", env)
        log["demo_with_change"] = r.stdout.strip().splitlines()
        fails_with = ("FAILED" in r.stdout) or ("test result: ok" not in r.stdout)
        sh(f"cd {wt} && git checkout -- src Cargo.toml")
        r = sh(f"cd {wt} && timeout 1500 cargo test --offline --features async --test seeded_demo 2>&1 | grep -E '^test result|^test .* (FAILED|ok)|^error' | head -12", env)
        log["demo_without_change"] = r.stdout.strip().splitlines()
        passes_without = "test result: ok" in r.stdout and "FAILED" not in r.stdout
        log["demo_fails_with_change"] = fails_with
        log["demo_passes_without_change"] = passes_without
        ok = log["builds"] and base_ok and fails_with and passes_without
    finally:
        sh(f"git -C /repo worktree remove --force {wt}")
        shutil.rmtree(wt, ignore_errors=True)
    sid = sys.argv[4] if len(sys.argv) > 4 else f"{prop}{letter}"
    print(sid, "CONFIRMED" if ok else "REJECTED", json.dumps({k: v for k, v in log.items() if isinstance(v, bool)}))
    if not ok:
        print(json.dumps(log, indent=1))
        return
    d = f"/verif/seeded/{sid}"
    os.makedirs(d, exist_ok=True)
    shutil.copy(patch, f"{d}/patch.diff")
    shutil.copy(demo, f"{d}/demo.rs")
    meta_out = {
        "id": sid,
        "breaks_property": prop,
        "summary": meta.get("summary"),
        "needs_to_manifest": meta.get("needs"),
        "origin": "independent sub-agent given only the property text (second-round agents also a list of changes already tried) and a scratch worktree",
        "confirmed_by_me": {
            "patch_applies_to_repo_HEAD": True,
            "builds_default_and_async": True,
            "repository_suite_with_change": log["baseline_with_change"],
            "demo_with_change": log["demo_with_change"],
            "demo_without_change": log["demo_without_change"],
            "how": "tools/confirm_seeded.py in a scratch git worktree of /repo (removed afterwards)",
        },
    }
    json.dump(meta_out, open(f"{d}/meta.json", "w"), indent=1)

main()
