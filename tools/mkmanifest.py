#!/usr/bin/env python3
"""Regenerates /verif/MANIFEST.json from the table below (run after adding a check)."""
import json, os, sys
HERE = os.path.dirname(os.path.dirname(os.path.abspath(__file__)))

# id -> (level, technique, level text, level note, design ref)
CHECKS = {
 "C05": ("exploration", "bounded-exhaustive enumeration + proptest vs independent encoder/decoder (differential, round trip)",
         "Every valid list of <=2 entries over boundary value sets (<=3 over reduced/full sets) and seeded random lists up to 10^4/10^5 entries are serialised by the library and compared byte-for-byte with an independent spec-level encoder, parsed from the independent encoder's output (canonical and non-eliding spellings) and round-tripped in all sync/async pairings under all four codecs. Search, not proof: covers the boundary lattice completely and the rest by sampling.",
         "Trusted: harness/src/spec/{varint,directory}.rs (written from the specification), flate2/brotli/zstd as decompressors.", "DESIGN.md §4 C05"),
 "C07": ("exploration", "bounded-exhaustive enumeration (all ids of zooms 0..12 / 0..15) + proptest vs independent Hilbert implementation",
         "Both conversions are compared with an independent rotate-and-flip implementation for every tile id of zooms 0-12 (quick) / 0-15 (thorough) together with block contiguity, edge adjacency and the aligned child block; boundary, bit-pattern and uniform points at every zoom 0-31, ids beyond the domain, and generated out-of-grid coordinate lookups against archives holding every tile the coordinates could alias to. Exhaustive below the zoom bound, sampled above it.",
         "Trusted: harness/src/spec/hilbert.rs (the specification's algorithm).", "DESIGN.md §4 C07"),
}

PENDING_REASON = "check under construction in this framework (DESIGN.md §9 construction order); not yet claimed"

def main():
    props = [json.loads(l) for l in open(os.path.join(HERE, "properties.jsonl"))]
    checks, na = [], []
    for p in props:
        pid = p["id"]
        if pid in CHECKS:
            level, tech, text, note, ref = CHECKS[pid]
            checks.append({
                "property_id": pid,
                "quick_cmd": f"./check {pid} quick",
                "thorough_cmd": f"./check {pid} thorough",
                "evidence_file": f"/verif/evidence/{pid}.json",
                "replay_cmd_template": f"./check {pid} --replay {{path}}",
                "engine": "vcheck",
                "level_claimed": {"category": level, "text": text, "design_ref": ref},
                "level_note": note,
                "technique": tech,
            })
        else:
            na.append({"property_id": pid, "reason": PENDING_REASON})
    hooks_commits = [l.strip() for l in open(os.path.join(HERE, "tools", "hook_commits.txt")) if l.strip()]
    m = {
        "version": 1,
        "setup_cmd": "./check --build",
        "hooks": {
            "guard": "cargo feature `verif` of pmtiles2 (off by default)",
            "enable": "harness/Cargo.toml depends on pmtiles2 = { path = \"/repo\", features = [\"async\", \"verif\"] }; every ./check rebuilds it from /repo's working tree",
            "baseline_off_cmd": "cd /repo && cargo test --workspace --no-fail-fast --offline",
            "source_commits": hooks_commits,
            "add_only": True,
        },
        "engines": [
            {"name": "vcheck", "path": "/verif/harness", "serves_properties": sorted(CHECKS.keys()),
             "kind_free_text": "Rust binary: 16 parallel seeded proptest lanes with same-signature shrinking, bounded-exhaustive indexed enumerators, independent spec-level PMTiles v3 codec/reader/writer as oracle, scheduled/faulting/recording stream wrappers, sandboxed worker processes, evidence + replay files"},
        ],
        "checks": checks,
        "not_applicable": na,
        "notes": "Exit 0 = held on everything explored (KNOWN-FINDING lines possible), 1 = VIOLATION line(s), 2 = inconclusive/infrastructure (never a violation). VERIF_SEED selects the seed (default 1). Known findings: /verif/known_findings.json.",
    }
    if not na:
        del m["not_applicable"]
    json.dump(m, open(os.path.join(HERE, "MANIFEST.json"), "w"), indent=1)
    print("MANIFEST.json:", len(checks), "checks,", len(na), "not claimed")

main()
