#!/usr/bin/env python3
"""Regenerates /verif/MANIFEST.json from the table below (run after adding a check)."""
import json, os, sys
HERE = os.path.dirname(os.path.dirname(os.path.abspath(__file__)))

# id -> (level, technique, level text, level note, design ref)
CHECKS = {
 "C01": ("exploration", "proptest (16 seeded lanes, shrinking) write->read round trip against a BTreeMap model; exact-rational coordinate oracle",
         "Generated tile maps (0..1000 tiles and fixed-seed 12k-60k-tile archives that force leaf spill; exact and near-duplicate contents; ids over the whole valid domain) x JSON-object metadata x all settings codes x 4 internal compressions x sync/async writer and reader are written through the public API, reopened and compared with the model: id listing, count, every tile's bytes, lookups by coordinates, non-members, metadata, settings, coordinates by the nearest-1e-7 rule. Sampling search with class floors; no exhaustiveness claimed.",
         "Trusted: the in-harness model and recipe expansion; coordinate rule accepts either neighbour within one f64 rounding error of a half-step tie. One open known finding (content hash collision) is excluded from the main search and exercised by its own probe.", "DESIGN.md §4 C01"),
 "C02": ("exploration", "proptest-generated archives validated by an independent spec-level reader (differential) + stdlib-only Python second reader on a sample",
         "Every archive produced from the C01 generator is parsed by a reader written from the specification (header, section bounds/disjointness, 16 KiB root budget, canonical directories, ordering, counters recomputed, clustered flag vs layout, binary-search lookup of every model id and of non-members). A sample is parsed again by an unrelated Python reader. Sampling search.",
         "Trusted: harness/src/spec/reader.rs and tools/pmtiles_ref.py as readings of the specification; flate2/brotli/zstd as decompressors.", "DESIGN.md §4 C02"),
 "C03": ("exploration", "proptest layouts through an independent spec-level writer; expected mapping from the layout description; fixtures",
         "Foreign archives (24 section orders, gaps, directory depth 1-3, shuffled/padded leaves, runs, shared/non-monotonic/undeduplicated offsets, non-eliding spelling, directories mixing tile entries and leaf pointers, the last tile id of the domain, counters left at 0, empty metadata, 4 codecs with foreign parameters) are opened through from_bytes / from_reader / from_async_reader and compared with what the layout addresses; util::read_directories (sync+async) and Directory::find_entry_for_tile_id are compared with reference answers; the three Go-writer fixtures and hand-assembled archives whose first leaf is steered onto decoder-buffer boundaries are compared with the independent reader; every third layout is followed by a sibling archive with an identical header and shifted tile ids. Sampling search with class floors.",
         "Trusted: harness/src/spec/{writer,reader}.rs, cross-checked against each other on every case.", "DESIGN.md §4 C03"),
 "C04": ("exploration", "bounded-exhaustive operation sequences + proptest histories against a map model (model-based testing)",
         "All sequences of 5 (quick) / 6 (thorough) operations over a 14-symbol alphabet of adjacent ids, colliding contents, removes and sync/async reopen, from an empty and from a foreign archive, with a full comparison against the model after every step; plus random histories up to 300 ops over larger alphabets and initial states. Exhaustive within the small scope, sampled beyond.",
         "Trusted: BTreeMap model and interpreter (harness/src/model/history.rs). The hash-collision finding has its own probe.", "DESIGN.md §4 C04"),
 "C05": ("exploration", "bounded-exhaustive enumeration + proptest vs independent encoder/decoder (differential, round trip)",
         "Every valid list of <=2 entries over boundary value sets (<=3 over reduced/full sets) and seeded random lists up to 10^4/10^5 entries are serialised by the library and compared byte-for-byte with an independent spec-level encoder, parsed from the independent encoder's output (canonical and non-eliding spellings) and round-tripped in all sync/async pairings under all four codecs; every third list follows a refused serialise / parse on the same thread; fixed uncompressed lists whose bytes start with a gzip / zstd magic. Search, not proof: covers the boundary lattice completely and the rest by sampling.",
         "Trusted: harness/src/spec/{varint,directory}.rs (written from the specification), flate2/brotli/zstd as decompressors.", "DESIGN.md §4 C05"),
 "C07": ("exploration", "bounded-exhaustive enumeration (all ids of zooms 0..12 / 0..16) + proptest vs independent Hilbert implementation",
         "Both conversions are compared with an independent rotate-and-flip implementation for every tile id of zooms 0-12 (quick) / 0-16 (thorough) together with block contiguity, edge adjacency and the aligned child block; boundary, bit-pattern and uniform points at every zoom 0-31 (each asked again at other zooms back to back), ids beyond the domain, and generated out-of-grid coordinate lookups against archives holding every tile the coordinates could alias to. Exhaustive below the zoom bound, sampled above it.",
         "Trusted: harness/src/spec/hilbert.rs (the specification's algorithm).", "DESIGN.md §4 C07"),
 "C10": ("exploration", "proptest duplication patterns and histories; independent greedy RLE + sum-of-distinct oracle; hook-observed retention invariant after every step",
         "Engineered duplication patterns on top of empty and undeduplicated foreign archives are written and parsed by the independent reader: tile-data length = sum of distinct content lengths, equal content <=> equal (offset,length), entry list = greedy run-length encoding of the model (hence not mergeable further); runs beyond 2^16 ids, archives with more than 2^16 distinct contents and archives that change threads between adds and the write, and one content shared by more than 2^16 ids of which most are removed again, are part of every tier. Edit histories check after every step that the builder holds exactly one copy per live in-memory content (verif hook). Sampling search with class floors.",
         "Trusted: independent RLE in props/c10.rs, spec reader; hook is a read-only accessor.", "DESIGN.md §4 C10"),
 "C11": ("exploration", "proptest archives x steered ranges; metamorphic oracle: full open filtered by an independent contains()",
         "Foreign and library-written archives (root-only, with leaves, depth <= 3) are opened partially through all five range-taking APIs with ranges over all nine bound-kind combinations, endpoints steered onto, next to, a few ids beyond and half-way between 0, leaf first ids, run boundaries and u64::MAX, incl. pin-point ranges of 1-7 ids; the result must equal the full opening restricted to the range, with identical bytes, and never fail or panic when the full open succeeds. Sampling search; every case carries all nine bound kinds.",
         "Trusted: independent contains() and the full open as reference (itself checked by C03).", "DESIGN.md §4 C11"),
 "C16": ("exploration", "proptest pairs of histories to the same state, repeated writes, rewrite, separate OS processes; byte-equality oracle",
         "For generated logical archives a second history (other permutation, detours, save+reopen in between) must serialise to the same bytes as the straight one, for all four codecs and both writers; the same history twice, a rewrite of a just-read archive, a foreign archive opened and saved against the same content built in memory, unrelated library work (incl. refused writes) between the two histories, a backing stream shared with another user, large archives with leaf spill, and two freshly spawned processes must agree too. Sampling search.",
         "Trusted: byte comparison only.", "DESIGN.md §4 C16"),
 "C19": ("exploration", "proptest placement of the offending element (history position, entry index, JSON kind, codec, API); Err-and-unchanged oracle with controls",
         "Empty-content adds at generated points of histories on in-memory and reader-backed archives (must be Err; archive then equals the model and writes the same bytes as without them); a zero-length entry (also spelled as an over-long varint or as a multiple of 2^32) at any index of directories up to 10^3 entries x 4 codecs x sync/async serialiser and parser; every non-object JSON kind (incl. long multi-byte strings) as metadata x open API x full / empty / tiny filter ranges; unknown internal compression on open (same APIs and ranges, also with empty sections) and on every writer (archives of up to a thousand entries). Sampling search with positive controls so a reject-everything implementation fails.",
         "Trusted: independent encoder for the parser-side bytes; spec writer for crafted archives.", "DESIGN.md §4 C19"),
}

CHECKS.update({
 "C06": ("exploration", "proptest with size-steered generators (uncompressed: exact byte length by varint widths; codecs: bisection with the library encoder as measuring device) + structural spill oracle",
         "Entry lists steered onto 16255..16259 and 16382..16386 bytes of single-root encoding and far on both sides, lists up to 10^5 entries, 4 codecs, initial leaf sizes {default,1,2,7,4096,>list,2^31,usize::MAX-1,usize::MAX}, short lists of 25-30-byte entries, sync/async, non-zero stream position, plus whole-archive writes around the threshold: root <= 16257, spill only when necessary, pointers carry first id / offset / exact length, leaves disjoint and decodable with nothing left over, concatenation = original entries, util::read_directories resolves to the reference expansion. Sampling search with exact hits on the budget edge counted as classes.",
         "Trusted: independent directory decoder and upstream decompressors; 'necessary' is judged with the library's own single-directory encoder (for none also the independent encoder's length).", "DESIGN.md §4 C06"),
 "C09": ("exploration", "enumeration of stored coordinate values (all 2^32 thorough / every 257th quick) + exhaustive byte codes and truncations + proptest fields and degrees vs independent header codec",
         "Parse->serialise must reproduce the 127 bytes for every stored coordinate value in all six slots (exhaustive in the thorough tier); degrees are stored as the nearest multiple of 1e-7 by an exact rational oracle; the eleven u64 fields at boundary and random values in all sync/async reader/writer pairings; every byte value at the magic, version, clustered and enum positions; every truncation length and longer inputs (reader stops at 127); sequences of header writes on one thread with failing / full sinks and unserialisable versions in between (each write into a healthy sink emits exactly the 127 bytes).",
         "Trusted: harness/src/spec/header.rs (fixed offsets from the specification); tie tolerance of one f64 rounding error.", "DESIGN.md §4 C09"),
 "C12": ("exploration", "proptest differential: sync API vs async API on the same inputs; byte equality where no codec is involved",
         "Foreign layouts, library-written recipes, entry lists (incl. forced spill, every initial leaf size) and headers: async readers must return what sync readers return (incl. partial opens and lookups); outputs of async writers must be read by both readers to the same content as the sync writers' and be byte-identical for uncompressed output, header settings/counters and tile data; an opened foreign archive re-written by the sync and by the async writer must agree in the same way. Sampling search.",
         "Trusted: the sync API as reference for the async one and vice versa (each is checked against independent oracles in C01/C03/C05).", "DESIGN.md §4 C12"),
 "C13": ("exploration", "exhaustive schedule enumeration (compositions, splits, cap sequences, Pending patterns) + proptest schedules; buffer-vs-fragmented differential",
         "All compositions of small directories (n <= 16), all 2-/3-part header splits, all 5^6 cap sequences and all 2^12 Pending patterns on small archives in all codecs, fixed caps 1..k and random schedules on generated archives: readers must return the same values and writers the same stream image and position as on an unfragmented stream. Exhaustive over the small scopes, sampled on full archives.",
         "Trusted: stream model harness/src/sio (short transfers >= 1 byte, waker woken before Pending, <= 3 consecutive Pending).", "DESIGN.md §4 C13"),
 "C14": ("exploration", "proptest byte strings x codec x chunk schedules; round-trip identity + differential against upstream crates and Python zlib",
         "compress_all / streaming compress / compress_async paired with decompress_all / streaming decompress / decompress_async under generated write- and read-size schedules, over in-memory streams and over underlying streams that themselves transfer only a few bytes per call and answer 'not ready' now and then, with flushes between writes and zero-length reads, must be the identity for none/gzip/brotli/zstd on inputs from 0 bytes to 8 MiB; outputs must be standard streams for flate2/brotli/zstd (fully consumed) and, for gzip, Python's zlib; every case is preceded by a round trip of a sibling payload; Unknown must be Err from all six entry points, also for payloads that are real codec streams.",
         "Trusted: upstream codec crates as decoders; Python zlib for gzip.", "DESIGN.md §4 C14"),
 "C15": ("fault_enumeration", "exhaustive fail-stop fault index enumeration over recorded operation logs, inputs sampled with proptest strategies",
         "For 13 scenarios x 4 compressions x sync/async x sampled archives the fault-free run is recorded and every k < N is executed with operations k.. failing; the call must return Err (never Ok, never panic), with the single carve-out of zero-byte EOF probes. Exhaustive in k for every sampled instance (instances above an operation cap only in the thorough tier). Two further passes: a fixed-size sink of every capacity below the needed size, and generated archives whose source stream ends inside a generated tile (lookups of incomplete tiles and re-writing must be Err, complete tiles exact) or exactly at the start of a directory (opening must be Err).",
         "Trusted: fail-stop fault model on the in-memory stream. One open known finding (Directory::to_writer sync + codec after flush).", "DESIGN.md §4 C15"),
 "C17": ("fault_enumeration", "exhaustive crash-point enumeration over the recorded write log, inputs sampled with proptest strategies",
         "For sampled archives (with/without spill, 4 codecs, sync/async) (built in memory or re-saved from an opened archive; some with a zero-tailed last tile) every prefix k in [0,N] of the recorded seek/write/flush/close operations is replayed into a fresh zero-filling stream; the image must be rejected by from_bytes unless it equals the complete archive. Exhaustive in k per instance.",
         "Trusted: each write call atomic; zero fill for unwritten ranges.", "DESIGN.md §4 C17"),
 "C18": ("exploration", "proptest start positions x prefill modes x archives; prefix-untouched + independent reader + model round trip + end position oracle",
         "Writing at stream position P in {0,1,10,127,128,4096,16384,random} into prefilled / longer-prefilled / empty-but-positioned streams with sync and async writers: bytes before P unchanged, stream[P..] passes the full C02 conformance check with offsets relative to P and opens to the model, final position = P + archive end.",
         "Trusted: C02's independent reader.", "DESIGN.md §4 C18"),
 "C20": ("exploration", "proptest foreign layouts on a recording stream; byte-range containment oracle",
         "Every byte range delivered while opening (full/partial, sync/async, with short reads) must lie inside header/metadata/root/leaf sections and never touch tile data, which the layouts place before or between the directory sections with gaps; each lookup - random ids, an ascending sweep over consecutive ids, a lookup of the following tile and a retry after a lookup aborted by a transient fault - must read exactly the tile's range and return its bytes.",
         "Trusted: recording stream; layout description for section bounds.", "DESIGN.md §4 C20"),
})

CHECKS.update({
 "C08": ("exploration", "sandboxed-worker fuzzing: crafted hazard corpus + exhaustive prefixes / single-byte substitutions + proptest structure-aware mutation (+ libFuzzer campaigns in the thorough tier); returns-oracle with budget rule from an independent walker",
         "Hostile inputs are executed through a 13-call API battery (sync and async) in worker processes with an address-space limit and a fixed stack, so panics, aborts on allocation failure and stack overflows are observed and attributed to the in-flight input. One crafted input per hazard class x 4 codecs, every prefix and 7 substitutions per byte of 8-12 small valid archives, and tens of thousands of structure-aware mutations (varint fields and header fields -> boundary values with pointers re-computed, splices, truncations, section swaps). Inputs whose declared work exceeds the stated budget are skipped and counted. Search only; hangs are reported as inconclusive.",
         "Trusted: the worker protocol (a death is attributed to the case in flight), harness/src/spec/reader.rs::declared_work for the budget rule.", "DESIGN.md §4 C08"),
})

PENDING_REASON = "check under construction in this framework (DESIGN.md §9 construction order); not yet claimed"

def main():
    props = [json.loads(l) for l in open(os.path.join(HERE, "properties.jsonl"))]
    checks, na = [], []
    for p in props:
        pid = p["id"]
        if pid in CHECKS:
            level, tech, text, note, ref = CHECKS[pid]
            checks.append({
                "property_id": pid,
                "quick_cmd": f"./check {pid} quick",
                "thorough_cmd": f"./check {pid} thorough",
                "evidence_file": f"/verif/evidence/{pid}.json",
                "replay_cmd_template": f"./check {pid} --replay {{path}}",
                "engine": "vcheck",
                "level_claimed": {"category": level, "text": text, "design_ref": ref},
                "level_note": note,
                "technique": tech,
            })
        else:
            na.append({"property_id": pid, "reason": PENDING_REASON})
    hooks_commits = [l.strip() for l in open(os.path.join(HERE, "tools", "hook_commits.txt")) if l.strip()]
    m = {
        "version": 1,
        "setup_cmd": "./check --build",
        "hooks": {
            "guard": "cargo feature `verif` of pmtiles2 (off by default)",
            "enable": "harness/Cargo.toml depends on pmtiles2 = { path = \"/repo\", features = [\"async\", \"verif\"] }; every ./check rebuilds it from /repo's working tree",
            "baseline_off_cmd": "cd /repo && cargo test --workspace --no-fail-fast --offline",
            "source_commits": hooks_commits,
            "add_only": True,
        },
        "engines": [
            {"name": "vcheck", "path": "/verif/harness", "serves_properties": sorted(CHECKS.keys()),
             "kind_free_text": "Rust binary: 16 parallel seeded proptest lanes with same-signature shrinking, bounded-exhaustive indexed enumerators, independent spec-level PMTiles v3 codec/reader/writer as oracle, scheduled/faulting/recording stream wrappers, sandboxed worker processes, evidence + replay files"},
        ],
        "checks": checks,
        "not_applicable": na,
        "notes": "Exit 0 = held on everything explored (KNOWN-FINDING lines possible), 1 = VIOLATION line(s), 2 = inconclusive/infrastructure (never a violation). VERIF_SEED selects the seed (default 1). Known findings: /verif/known_findings.json.",
    }
    # (kept even when empty: every listed property is claimed; DESIGN.md section 7)
    json.dump(m, open(os.path.join(HERE, "MANIFEST.json"), "w"), indent=1)
    print("MANIFEST.json:", len(checks), "checks,", len(na), "not claimed")

main()
