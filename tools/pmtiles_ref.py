#!/usr/bin/env python3
"""Second, unrelated PMTiles v3 reader (Python standard library only).

Written from the specification; shares nothing with the Rust harness or the library.
Supports internal compression none (1) and gzip (2) only (what the stdlib can decode).

  pmtiles_ref.py batch <manifest.json>   manifest: [{"file": path, "tiles": [[id, fnv64hex, len], ...]}, ...]
        prints one line per file: "OK <index>" or "FAIL <index> <reason>"
  pmtiles_ref.py gunzip <file>...        prints "OK <index> <fnv64hex> <len>" / "FAIL <index> <reason>" per file
"""
import json
import struct
import sys
import zlib


def fnv64(b):
    h = 0xcbf29ce484222325
    for x in b:
        h = ((h ^ x) * 0x100000001B3) & 0xFFFFFFFFFFFFFFFF
    return h


def fnv64_fast(b):
    # same function, chunked to keep Python overhead tolerable
    h = 0xcbf29ce484222325
    P = 0x100000001B3
    M = 0xFFFFFFFFFFFFFFFF
    for x in b:
        h = ((h ^ x) * P) & M
    return h


def gunzip_exact(data):
    """Decode one gzip member; returns (bytes, consumed_all)."""
    d = zlib.decompressobj(16 + zlib.MAX_WBITS)
    out = d.decompress(data)
    out += d.flush()
    if not d.eof:
        raise ValueError("truncated gzip stream")
    return out, len(d.unused_data) == 0


def varint(buf, pos):
    v = 0
    shift = 0
    while True:
        if pos >= len(buf):
            raise ValueError("unterminated varint")
        b = buf[pos]
        pos += 1
        v |= (b & 0x7F) << shift
        if b < 0x80:
            return v, pos
        shift += 7
        if shift > 63:
            raise ValueError("varint too long")


def read_dir(raw):
    n, pos = varint(raw, 0)
    ids, runs, lens, offs = [], [], [], []
    last = 0
    for _ in range(n):
        d, pos = varint(raw, pos)
        last += d
        ids.append(last)
    for _ in range(n):
        v, pos = varint(raw, pos)
        runs.append(v)
    for _ in range(n):
        v, pos = varint(raw, pos)
        if v == 0:
            raise ValueError("entry length 0")
        lens.append(v)
    for i in range(n):
        v, pos = varint(raw, pos)
        if v == 0:
            if i == 0:
                raise ValueError("first offset 0")
            offs.append(offs[i - 1] + lens[i - 1])
        else:
            offs.append(v - 1)
    if pos != len(raw):
        raise ValueError("trailing bytes in directory")
    return list(zip(ids, runs, lens, offs))


def decode_section(data, comp):
    if comp == 1:
        return data
    if comp == 2:
        out, allc = gunzip_exact(data)
        if not allc:
            raise ValueError("bytes after gzip member")
        return out
    raise ValueError("compression %d not supported by this reader" % comp)


def parse(data):
    if len(data) < 127:
        raise ValueError("short file")
    if data[0:7] != b"PMTiles" or data[7] != 3:
        raise ValueError("magic/version")
    (root_off, root_len, meta_off, meta_len, leaf_off, leaf_len, data_off, data_len,
     n_addr, n_ent, n_cont) = struct.unpack_from("<11Q", data, 8)
    clustered, internal, tile_comp, tile_type, minz, maxz = struct.unpack_from("<6B", data, 96)
    for (o, l, nm) in ((root_off, root_len, "root"), (meta_off, meta_len, "meta"), (leaf_off, leaf_len, "leaf"), (data_off, data_len, "data")):
        if o + l > len(data):
            raise ValueError("%s section outside file" % nm)
    if root_off < 127 or root_off + root_len > 16384:
        raise ValueError("root directory not inside the first 16 KiB after the header")
    if meta_len:
        meta = json.loads(decode_section(data[meta_off:meta_off + meta_len], internal).decode("utf-8"))
        if not isinstance(meta, dict):
            raise ValueError("metadata is not an object")
    tiles = {}
    entries = []

    def walk(off, ln, depth):
        if depth > 3:
            raise ValueError("too deep")
        d = read_dir(decode_section(data[off:off + ln], internal))
        prev_end = -1
        for (tid, run, length, o) in d:
            if tid < prev_end:
                raise ValueError("ids not ascending")
            if run == 0:
                if o + length > leaf_len:
                    raise ValueError("leaf outside section")
                walk(leaf_off + o, length, depth + 1)
                prev_end = tid + 1
            else:
                if o + length > data_len:
                    raise ValueError("tile outside tile data")
                entries.append((tid, run, length, o))
                for k in range(run):
                    if tid + k in tiles:
                        raise ValueError("id addressed twice")
                    tiles[tid + k] = (data_off + o, length)
                prev_end = tid + run

    walk(root_off, root_len, 0)
    if n_addr != sum(e[1] for e in entries):
        raise ValueError("addressed-tiles counter %d != %d" % (n_addr, sum(e[1] for e in entries)))
    if n_ent != len(entries):
        raise ValueError("tile-entries counter %d != %d" % (n_ent, len(entries)))
    if n_cont != len(set(e[3] for e in entries)):
        raise ValueError("tile-contents counter %d != %d" % (n_cont, len(set(e[3] for e in entries))))
    return tiles


def batch(path):
    man = json.load(open(path))
    for i, item in enumerate(man):
        try:
            data = open(item["file"], "rb").read()
            tiles = parse(data)
            want = item["tiles"]
            if len(tiles) != len(want):
                raise ValueError("%d ids addressed, %d expected" % (len(tiles), len(want)))
            for (tid, h, n) in want:
                if tid not in tiles:
                    raise ValueError("id %d missing" % tid)
                off, ln = tiles[tid]
                if ln != n:
                    raise ValueError("id %d length %d != %d" % (tid, ln, n))
                if n <= 8192 and ("%016x" % fnv64_fast(data[off:off + ln])) != h:
                    raise ValueError("id %d content differs" % tid)
            print("OK %d" % i)
        except Exception as e:  # noqa
            print("FAIL %d %s" % (i, str(e).replace("\n", " ")[:200]))
        sys.stdout.flush()


def gunzip_cmd(files):
    for i, f in enumerate(files):
        try:
            out, allc = gunzip_exact(open(f, "rb").read())
            if not allc:
                raise ValueError("bytes after gzip member")
            print("OK %d %016x %d" % (i, fnv64_fast(out[:65536]), len(out)))
        except Exception as e:  # noqa
            print("FAIL %d %s" % (i, str(e)[:200]))


if __name__ == "__main__":
    if len(sys.argv) >= 3 and sys.argv[1] == "batch":
        batch(sys.argv[2])
    elif len(sys.argv) >= 3 and sys.argv[1] == "gunzip":
        gunzip_cmd(sys.argv[2:])
    else:
        print(__doc__)
        sys.exit(2)
