#!/bin/bash
# usage: tools/run_all_seeded.sh [ids...]   — runs each seeded change against the check of the property it breaks
cd /verif
ids="$@"; [ -z "$ids" ] && ids=$(ls seeded)
for sid in $ids; do
  prop=${sid:0:3}
  res=$(python3 tools/run_seeded.py seeded/$sid/patch.diff $prop 2>&1 | grep -E "^C[0-9]+ |^patch|^cannot")
  echo "$sid  $res"
  echo "$sid  $res" >> seeded/RESULTS.txt
done
