#!/bin/bash
# usage: tools/run_all_seeded.sh [ids...]   — runs each seeded change against the check of the property it breaks
# (or the property named in meta.json "checked_with" when the change needs another property's quantifier)
HERE="$(cd "$(dirname "$0")/.." && pwd)"
cd "$HERE"
ids="$@"; [ -z "$ids" ] && ids=$(ls seeded | grep -E '^C[0-9]+[a-z]$')
for sid in $ids; do
  prop=$(python3 -c "import json;m=json.load(open('$HERE/seeded/$sid/meta.json'));print(m.get('checked_with', '${sid:0:3}'))")
  res=$(python3 tools/run_seeded.py seeded/$sid/patch.diff $prop --save-regress $sid 2>&1 | grep -E "^C[0-9]+ |^patch|^cannot")
  echo "$sid  $res"
  echo "$sid  $res" >> seeded/RESULTS.txt
done
