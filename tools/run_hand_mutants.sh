#!/bin/bash
# Runs every hand-made mutant in /verif/mutants against its target properties; writes mutants/RESULTS.txt
cd "$(dirname "$0")/.."
export HERE="$PWD"
python3 - <<'PY'
import json, subprocess, sys
import os
HERE = os.environ['HERE']
meta = json.load(open(HERE + '/mutants/hand_mutants.json'))
only = sys.argv[1:] 
out = open(HERE + '/mutants/RESULTS.txt', 'a')
for name, props in meta.items():
    r = subprocess.run(['python3', 'tools/run_seeded.py', f'mutants/{name}.diff', *props, '--baseline'], stdout=subprocess.PIPE, stderr=subprocess.STDOUT, text=True)
    lines = [l for l in r.stdout.splitlines() if l.startswith(('baseline', 'C', 'patch', 'cannot'))]
    print(name); [print('   ', l) for l in lines]; sys.stdout.flush()
    out.write(name + '\n' + '\n'.join('    ' + l for l in lines) + '\n'); out.flush()
PY
