#!/usr/bin/env python3
"""Run checks against a seeded change (mutant) without touching /repo.

  run_seeded.py <patch.diff> <PROP> [<PROP> ...] [--tier quick] [--baseline] [--keep]

Creates a scratch git worktree of /repo under /tmp, applies the patch, optionally runs the
repository's own test suite (the change must keep it green), then runs `./check <PROP> <tier>` with
VERIF_REPO pointing at the scratch tree (separate, shared cargo target dir /tmp/verif-mut-target),
prints one line per property and removes the worktree again.
Exit code 0 if every listed check reported a VIOLATION (mutant killed by all), 1 otherwise.
"""
import json, os, subprocess, sys, tempfile, shutil, time
HERE = os.path.dirname(os.path.dirname(os.path.abspath(__file__)))
MT = os.environ.get("VERIF_MT") or ("/tmp/verif-mut-target" if HERE == "/verif" else "/tmp/verif-mut-target-" + os.path.basename(HERE))  # VERIF_MT: own target dir per parallel stream

def sh(cmd, **kw):
    return subprocess.run(cmd, shell=True, stdout=subprocess.PIPE, stderr=subprocess.STDOUT, text=True, **kw)

def main():
    args = [a for a in sys.argv[1:] if not a.startswith("--")]
    flags = [a for a in sys.argv[1:] if a.startswith("--")]
    tier = "quick"
    if "--tier" in sys.argv:
        tier = sys.argv[sys.argv.index("--tier") + 1]
        args = [a for a in args if a != tier]
    save_as = None
    if "--save-regress" in sys.argv:
        save_as = sys.argv[sys.argv.index("--save-regress") + 1]
        args = [a for a in args if a != save_as]
    patch, props = os.path.abspath(args[0]), args[1:]
    wt = tempfile.mkdtemp(prefix="verif-mut-", dir="/tmp")
    os.rmdir(wt)
    r = sh(f"git -C /repo worktree add -q --detach {wt} HEAD")
    if r.returncode != 0:
        print("cannot create worktree:", r.stdout); sys.exit(2)
    results = {}
    try:
        r = sh(f"git -C {wt} apply --whitespace=nowarn {patch}")
        if r.returncode != 0:
            print("patch does not apply:", r.stdout); sys.exit(2)
        env = dict(os.environ, CARGO_NET_OFFLINE="true", CARGO_TARGET_DIR=MT + "/repo")
        if "--baseline" in flags:
            t0 = time.time()
            r = sh(f"cd {wt} && cargo test --workspace --no-fail-fast --offline 2>&1 | grep -E '^test result|FAILED|^error' ", env=env)
            ok = r.stdout.count("test result: ok") >= 2 and "FAILED" not in r.stdout and "error" not in r.stdout
            print(f"baseline tests with the change: {'pass' if ok else 'FAIL'} ({time.time()-t0:.0f}s)")
            if not ok:
                print(r.stdout)
            results["baseline_pass"] = ok
        env2 = dict(os.environ, VERIF_REPO=wt, VERIF_TARGET=MT + "/harness")
        for p in props:
            t0 = time.time()
            r = sh(f"cd {HERE} && ./check {p} {tier}", env=env2)
            viol = [l for l in r.stdout.splitlines() if l.startswith("VIOLATION")]
            sigs = [l.strip() for l in r.stdout.splitlines() if "signature:" in l]
            verdict = {0: "SILENT", 1: "KILLED", 2: "INCONCLUSIVE"}.get(r.returncode, f"rc={r.returncode}")
            print(f"{p} {tier}: {verdict} ({time.time()-t0:.0f}s) " + (" | ".join(s.split('signature:')[1].strip() for s in sigs[:3])))
            if r.returncode == 2:
                print("   " + "\n   ".join(r.stdout.splitlines()[-6:]))
            if save_as and viol:
                # keep the (shrunk) distinguishing case as a committed regression replay of that property
                for v in viol:
                    rp = v.split("replay=")[-1].strip()
                    if os.path.isfile(rp) and os.path.getsize(rp) <= 200_000:
                        dst = f"{HERE}/replays/{p}/regress"
                        os.makedirs(dst, exist_ok=True)
                        shutil.copy(rp, f"{dst}/seeded-{save_as}.json")
                        break
            results[p] = {"verdict": verdict, "signatures": [s.split('signature:')[1].strip() for s in sigs], "seconds": round(time.time()-t0, 1)}
    finally:
        if "--keep" not in flags:
            sh(f"git -C /repo worktree remove --force {wt}")
            shutil.rmtree(wt, ignore_errors=True)
    # every scratch worktree path leaves its own incremental state and rlibs behind: drop the stale ones
    sh(f"cd {MT}/harness/verif 2>/dev/null && find incremental -maxdepth 1 -mindepth 1 -mmin +45 -exec rm -rf {{}} + ; "
       "find deps \\( -name '*pmtiles2*' -o -name '*vcheck*' \\) -mmin +45 -delete")
    # evidence / replays written by these runs belong to the mutant, not to /repo: restore the committed ones
    sh(f"cd {HERE} && git checkout -- evidence 2>/dev/null; rm -rf {HERE}/replays/*/found")
    print("RESULT " + json.dumps(results))
    sys.exit(0 if all(v.get("verdict") == "KILLED" for k, v in results.items() if k != "baseline_pass") else 1)

main()
