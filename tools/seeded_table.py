#!/usr/bin/env python3
"""Builds /verif/seeded/TABLE.md from seeded/*/meta.json, seeded/RESULTS.txt and mutants/RESULTS.txt
(last result per id wins)."""
import json, os, re, glob
res = {}
for l in open('/verif/seeded/RESULTS.txt'):
    m = re.match(r'^(C\d\d[a-z]\d?)\s+(C\d\d) \w+: (\w+) \((\d+)s\)\s*(.*)$', l.strip())
    if m:
        res[m.group(1)] = (m.group(2), m.group(3), m.group(5))
rows = []
for d in sorted(glob.glob('/verif/seeded/C*')):
    sid = os.path.basename(d)
    if not os.path.isdir(d): continue
    meta = json.load(open(f'{d}/meta.json'))
    r = res.get(sid, ('', 'not run', ''))
    sig = r[2].split(' | ')[0] if r[2] else ''
    rows.append(f"| {sid} | {meta['summary'][:150].replace('|','/')} | {meta['needs_to_manifest'][:170].replace('|','/')} | {r[0]} | {r[1]} | `{sig}` |")
out = ["# Seeded changes (independent sub-agents) and which check catches them", "",
       "Each change was produced by a fresh sub-agent that saw only the property text and its own scratch worktree, then confirmed by `tools/confirm_seeded.py` (applies, builds with and without `async`, repository suite green, demo fails with / passes without). `Check` is the property whose quick check was run (the one the change was written against, or the one named in `checked_with` when the change needs another property's quantifier); `Result` is the verdict of `./check <property> quick` run against a scratch worktree with the patch applied (`tools/run_seeded.py`).", "",
       "| Id | Change | Needs | Check | Result (quick) | First signature |", "|---|---|---|---|---|---|"] + rows
# hand mutants
out += ["", "## Hand-made mutants (`/verif/mutants/*.diff`)", "", "| Mutant | Check: verdict |", "|---|---|"]
cur = None; acc = {}
if os.path.exists('/verif/mutants/RESULTS.txt'):
    for l in open('/verif/mutants/RESULTS.txt'):
        if not l.startswith(' '):
            cur = l.strip(); acc[cur] = []
        elif cur and re.match(r'\s+C\d\d ', l):
            m = re.match(r'\s+(C\d\d) \w+: (\w+)', l)
            acc[cur].append(f"{m.group(1)}: {m.group(2)}")
    for k, v in acc.items():
        out.append(f"| {k} | {', '.join(v)} |")
open('/verif/seeded/TABLE.md', 'w').write('\n'.join(out) + '\n')
print(len(rows), 'seeded rows;', len(acc), 'hand mutants')
